"""CL03 rule instances (C13-C19).  The baseline never compiles src/cl03; it is analysed here in the prod-all
configuration (harness + system-GMP shim), with the same MIR engines as the BBS code."""
import re
from framework import Ob, AnchorMissing
from rf_gates import resolve_fn, rule_accept_requirements, eval_requirement, gate_is_comparison
from flow import local_target, walk, accept_blocks, MustFlow, callee_matches
from dep import strip, fmt_atoms, fmt_atom
from spec import parse_req, has

SIGI = 'cl03::signature::<impl schemes::generics::Signature<schemes::algorithms::CL03<CS>>>::'
BSI = 'cl03::blind::<impl schemes::generics::BlindSignature<schemes::algorithms::CL03<CS>>>::'
POKI = 'cl03::proof::<impl schemes::generics::PoKSignature<schemes::algorithms::CL03<CS>>>::'
ZKI = 'cl03::proof::<impl schemes::generics::ZKPoK<schemes::algorithms::CL03<CS>>>::'
COMI = 'cl03::commitment::<impl schemes::generics::Commitment<schemes::algorithms::CL03<CS>>>::'
RP = 'cl03::range_proof::Boudot2000RangeProof::'
SP = 'cl03::sigma_protocols::'

# ---------------------------------------------------------------------------------- C13
# the interval (2^(le-1), 2^le) written with order comparisons against its ends, or by the bit length: a primitive equality of a machine integer
# computed from e (its number of significant bits) with le that must hold - both ends at once (e = 2^(le-1) aside)
E_BITLEN_ALTS = [{}, {'gate_callee': [], 'gate_op': ['Eq'], 'truth': True, 'min_gates': 1}]
C13_REQS = [
    (SIGI + 'verify', [
        {'id': 'equation', 'what': 'v^e == a^m * b^s * c (mod N) gates acceptance and depends on v, e, s, the base, the attribute, b, c, N',
         'gate_callee': ['PartialEq'], 'cover': ['self.v', 'self.e', 'self.s', 'a_bases', 'message', 'pk.b', 'pk.c', 'pk.N']},
        {'id': 'e-lower', 'what': 'e > 2^(le-1) gates acceptance', 'gate_callee': ['PartialOrd'], 'cover': ['self.e', 'a:le'], 'pure': ['self.e'], 'alts': E_BITLEN_ALTS},
        {'id': 'e-range', 'what': 'e is compared with both ends of its range (2^(le-1) < e < 2^le): two order comparisons of e with powers of 2^le', 'gate_callee': ['PartialOrd'],
         'cover': ['self.e', 'a:le'], 'pure': ['self.e'], 'min_gates': 2, 'alts': E_BITLEN_ALTS},
        {'id': 'attribute-range', 'what': 'the attribute is compared with 2^lm before acceptance (0 <= m < 2^lm)',
         'gate_callee': ['PartialOrd', 'Ord::cmp', 'Iterator::any', 'Iterator::all', 'significant_bits'], 'gate_op': ['Lt', 'Le', 'Gt', 'Ge'],
         'quantifier': 'forall', 'cover': ['message', 'a:lm'], 'pure': ['message']},
    ]),
    (SIGI + 'verify_multiattr', [
        {'id': 'equation', 'what': 'v^e == prod a_i^m_i * b^s * c (mod N) gates acceptance',
         'gate_callee': ['PartialEq'], 'cover': ['self.v', 'self.e', 'self.s', 'a_bases', 'messages', 'pk.b', 'pk.c', 'pk.N']},
        {'id': 'e-lower', 'what': 'e > 2^(le-1) gates acceptance', 'gate_callee': ['PartialOrd'], 'cover': ['self.e', 'a:le'], 'pure': ['self.e'], 'alts': E_BITLEN_ALTS},
        {'id': 'e-range', 'what': 'e is compared with both ends of its range (2^(le-1) < e < 2^le), as in the single-attribute verifier', 'gate_callee': ['PartialOrd'],
         'cover': ['self.e', 'a:le'], 'pure': ['self.e'], 'min_gates': 2, 'alts': E_BITLEN_ALTS},
        {'id': 'attribute-count', 'what': 'the number of attributes is compared for equality with the number of bases the signature was issued over (a^0 = 1: otherwise a signature on '
                                          '[m, 0] also verifies for [m] and for [m, 0, 0])', 'gate_op': ['Eq', 'Ne'], 'cover': ['len(messages)', 'len(a_bases)']},
        {'id': 'attribute-range', 'what': 'every attribute is compared with 2^lm before acceptance',
         'gate_callee': ['PartialOrd', 'Ord::cmp', 'Iterator::any', 'Iterator::all', 'significant_bits'], 'gate_op': ['Lt', 'Le', 'Gt', 'Ge'],
         'quantifier': 'forall', 'cover': ['messages', 'a:lm'], 'pure': ['messages']},
    ]),
]


def rule_e_loop_exit(ctx, cfg='prod-all'):
    """sign / sign_multiattr / blind_sign: the code after the `while !(...) { e = random_prime(le) }` loop is reached only through the
    exit edge of a condition that compares e with 2^(le-1), with 2^le and gcd(e, phi) with 1; e comes from random_prime(le)."""
    prog, eng, ga = ctx.prog(cfg), ctx.eng(cfg), ctx.gates(cfg)
    for suffix in (SIGI + 'sign', SIGI + 'sign_multiattr', BSI + 'blind_sign', BSI + 'update_signature'):
        entry = resolve_fn(prog, suffix)
        efd = eng.fndep(entry.path)
        # the body (this function, or a helper of the module it calls) that holds the search loop and computes the inverse of e
        b = None
        for fr in walk(eng, entry.path, include_closures=False):
            if fr.path != entry.path and not fr.path.startswith(('cl03::signature::', 'cl03::blind::')):
                continue
            if any((t.get('callee') or '').endswith(('invert_ref', '::invert')) for bi, t in fr.body.calls()):
                b = fr.body
                break
        if b is None:
            raise AnchorMissing('invert call in %s (or a helper of its module)' % entry.path)
        fd = eng.fndep(b.path)
        inv = [bi for bi, t in b.calls() if (t.get('callee') or '').endswith('invert_ref') or (t.get('callee') or '').endswith('::invert')]
        tgt = inv[0]
        loops = b.natural_loops()
        # exit conditions: switches inside a loop that contains a random_prime call, having an edge that leaves the loop towards tgt
        found = {'gt': False, 'lt': False, 'gcd': False}
        sense = {'gt': False, 'lt': False, 'gcd': False}       # the same tests, *holding* on the edge that leaves the search
        prime_in_loop = False
        from flow import classify_switch

        def judge(g2, names_of, target):
            """one test with a known outcome: which of the three conditions it establishes"""
            w = (g2.what or '').split('::')[-1]
            if g2.truth is None or len(g2.operands) != 2:
                return
            t = g2.truth
            sides = [names_of(o) for o in g2.operands]
            drawn = [any(n.endswith('thread_rng') for n in sd) for sd in sides]
            if w in ('cmp', 'partial_cmp') and g2.const_ops:
                c = str(g2.const_ops[-1])
                w = 'gt' if 'Greater' in c else 'lt' if 'Less' in c else 'eq' if 'Equal' in c else w
            rel = {'gt': '>', 'ge': '>', 'lt': '<', 'le': '<', 'Gt': '>', 'Ge': '>', 'Lt': '<', 'Le': '<'}.get(w)
            if rel and drawn[0] != drawn[1]:
                strict_flip = {'>': '<', '<': '>'}
                if not t:
                    rel = strict_flip[rel]
                if drawn[1]:
                    rel = strict_flip[rel]
                bound = sides[1] if drawn[0] else sides[0]
                if 'le' in bound:
                    # the bound itself, where it is written out in ciphersuite constants: 2^(le - 1) below, 2^le above (`2^le` below lets no
                    # exponent through, `2^(le - 2)` is another interval)
                    import rf_senses
                    bi_ = 1 if drawn[0] else 0
                    right = True
                    if g2.oargs and bi_ < len(g2.oargs) and g2.fn:
                        gfd = eng.fndep(g2.fn)
                        for val in rf_senses._envs():
                            v = rf_senses._const_eval(gfd, g2.oargs[bi_], val) if gfd is not None else None
                            if v is not None and v != 2 ** (val('le') - (1 if rel == '>' else 0)):
                                right = False
                    if right:
                        target['gt' if rel == '>' else 'lt'] = True
            if w in ('eq', 'Eq', 'ne', 'Ne'):
                holds = t if w in ('eq', 'Eq') else (not t)
                alln = sides[0] | sides[1]
                if holds and any(n.startswith('sk.p') for n in alln) and any(n.startswith('sk.q') for n in alln) and 'c:1' in alln:
                    target['gcd'] = True
                if holds and g2.kind == 'cmp' and 'le' in alln and not any(n.startswith('sk.') for n in alln):
                    target['gt'] = target['lt'] = True      # bit length of e == le

        def edge_gates(lb, lfd, x, s_):
            out = []
            t_ = lb.blocks[x]['term']
            if t_['k'] == 'switch':
                g = classify_switch(eng, lfd, x)
                g.edge = (x, s_)
                g.dom = True
                zero_t = [b_ for v_, b_ in t_['targets'] if v_ == '0']
                if zero_t and len(t_['targets']) == 1 and zero_t[0] != t_['otherwise']:
                    raw = (s_ != zero_t[0])
                    g.truth = (not raw) if g.negated else raw
                out.extend(ga._flatten(g))
            return out
        # the search loop sits in this body or in a helper of the module that hands the exponent back (`fresh_exponent(&phi_n)`); its exit
        # conditions are read in the terms of the entry point
        for fr in walk(eng, entry.path, max_depth=4, include_closures=False):
            if fr.path != entry.path and not fr.path.startswith(('cl03::signature::', 'cl03::blind::')):
                continue
            lb, lfd = fr.body, fr.fd
            for h, blocks in lb.natural_loops():
                if lb is b and tgt in blocks:
                    continue
                has_prime = any(lb.blocks[x]['term']['k'] == 'call' and (local_target(eng, lb.blocks[x]['term']) or '').endswith('random_prime') for x in blocks)
                if not has_prime:
                    continue
                prime_in_loop = True
                # what holds when the search is left: the test on the leaving edge and the tests that edge is reached through
                leaving = [(x, s_) for x in sorted(blocks) for s_ in lb.succ[x] if s_ not in blocks and not lb.diverges(s_) and not lb.blocks[s_]['cleanup']]
                per_edge = []
                for x, s_ in leaving:
                    egs = edge_gates(lb, lfd, x, s_)
                    # the tests passed earlier in the last round: a switch of the loop that dominates the leaving block, one of whose sides
                    # cannot get there without starting another round
                    def within_round(frm):
                        seen_, st_ = set(), [frm]
                        while st_:
                            y = st_.pop()
                            if y in seen_ or y not in blocks or y == h:
                                continue
                            seen_.add(y)
                            st_.extend(lb.succ[y])
                        return seen_
                    for a in sorted(blocks):
                        if a == x or lb.blocks[a]['term']['k'] != 'switch' or not lb.dominates(a, x):
                            continue
                        sides = [y for y in dict.fromkeys(lb.succ[a]) if y == x or x in within_round(y)]
                        if len(sides) == 1:
                            egs.extend(edge_gates(lb, lfd, a, sides[0]))
                    tgt_sense = {'gt': False, 'lt': False, 'gcd': False}
                    for g_ in egs:
                        alts = [g_]
                        if g_.kind == 'deleg' and g_.callee in prog.bodies and g_.truth is not None:
                            alts = []
                            for alt in ga._lift_paths(lfd, g_.callee, g_.args, True, (lb.path,), want=bool(g_.truth), targs=g_.targs) or []:
                                alts.extend(alt)
                        for g3 in alts:
                            judge(g3, lambda o: {fmt_atom(entry, a) for a in fr.lift(o)}, tgt_sense)
                    per_edge.append(tgt_sense)
                if per_edge:
                    for k_ in sense:
                        sense[k_] = sense[k_] or all(pe[k_] for pe in per_edge)
                for x in blocks:
                    t = lb.blocks[x]['term']
                    if t['k'] != 'switch':
                        continue
                    g = classify_switch(eng, lfd, x)
                    subs = []
                    for g2 in ga._flatten(g):
                        if g2.kind == 'deleg' and g2.callee in prog.bodies:
                            # a local predicate (`has_exponent_length(&e, le)`): the tests its verdict rests on
                            for alt in ga._lift_paths(lfd, g2.callee, g2.args, True, (lb.path,), want=True, targs=g2.targs) or []:
                                subs.extend(alt)
                        else:
                            subs.append(g2)
                    for g2 in subs:
                        w = g2.what or ''
                        atoms = fr.lift(g2.all_atoms())
                        names = {fmt_atom(entry, a) for a in atoms}
                        if ('PartialOrd::gt' in w or 'PartialOrd::ge' in w) and 'le' in names:
                            found['gt'] = True
                        if ('PartialOrd::lt' in w or 'PartialOrd::le' in w) and 'le' in names:
                            found['lt'] = True
                        if g2.kind == 'cmp' and g2.what == 'Eq' and g2.truth is True and 'le' in names:
                            found['gt'] = found['lt'] = True      # the bit length of e equals le: both ends
                        if any(n.startswith('sk.p') for n in names) and any(n.startswith('sk.q') for n in names):
                            found['gcd'] = True
        # the same search written with iterator adaptors: `iter::repeat_with(|| random_prime(le)).find(|e| tests(e))`: the candidates come from
        # the generating closure, the exit tests are what the predicate's `true` rests on
        if not prime_in_loop:
            from flow import ClosureFrame, _classify_value
            for fr in walk(eng, entry.path, max_depth=4, include_closures=False):
                if fr.path != entry.path and not fr.path.startswith(('cl03::signature::', 'cl03::blind::')):
                    continue
                lb, lfd = fr.body, fr.fd
                for bi_, t_ in lb.calls():
                    if (t_.get('callee') or '') != 'std::iter::Iterator::find' or len(t_['args']) != 2 or t_['args'][1]['k'] not in ('copy', 'move'):
                        continue
                    # the receiver: repeat_with(gen)
                    l_ = t_['args'][0]['pl']['l'] if t_['args'][0]['k'] in ('copy', 'move') else None
                    gen = None
                    for _ in range(5):
                        ds_ = [d_ for d_ in lfd.defs.get(l_, []) if not d_[2].get('dst', {}).get('p')] if l_ is not None else []
                        if len(ds_) != 1:
                            break
                        d_ = ds_[0]
                        if d_[0] == 'assign' and d_[2]['rv']['k'] in ('use', 'ref'):
                            src_ = d_[2]['rv'].get('pl') or d_[2]['rv'].get('op', {}).get('pl')
                            l_ = src_['l'] if src_ else None
                            continue
                        if d_[0] == 'call' and (d_[2].get('callee') or '') in ('std::iter::repeat_with', 'core::iter::repeat_with') and d_[2]['args'] \
                                and d_[2]['args'][0]['k'] in ('copy', 'move'):
                            gen = lfd._closure_info(d_[2]['args'][0]['pl']['l'])
                        break
                    pred = lfd._closure_info(t_['args'][1]['pl']['l'])
                    if gen is None or pred is None or gen[0] not in prog.bodies or pred[0] not in prog.bodies:
                        continue
                    if not any((local_target(eng, tt) or '').endswith('random_prime') for _b, tt in prog.bodies[gen[0]].calls()):
                        continue
                    prime_in_loop = True
                    pfd = eng.fndep(pred[0])
                    cf = ClosureFrame(eng, pred[0], fr)
                    g0 = _classify_value(eng, pfd, {'l': 0}, 0, None, 0)
                    g0.truth = True
                    for g2 in ga._flatten(g0):
                        judge(g2, lambda o: {fmt_atom(entry, a) for a in cf.lift(o)}, sense)
                        w = g2.what or ''
                        names = {fmt_atom(entry, a) for a in cf.lift(g2.all_atoms())}
                        if ('PartialOrd::gt' in w or 'PartialOrd::ge' in w) and 'le' in names:
                            found['gt'] = True
                        if ('PartialOrd::lt' in w or 'PartialOrd::le' in w) and 'le' in names:
                            found['lt'] = True
                        if g2.kind == 'cmp' and g2.what == 'Eq' and g2.truth is True and 'le' in names:
                            found['gt'] = found['lt'] = True
                        if any(n.startswith('sk.p') for n in names) and any(n.startswith('sk.q') for n in names):
                            found['gcd'] = True
        # provenance of e at the signature aggregate
        e_ok = False
        for fr in walk(eng, entry.path, max_depth=3, include_closures=False):
            if fr.path != entry.path and not fr.path.startswith(('cl03::signature::', 'cl03::blind::')):
                continue
            for bi, s in fr.body.stmts():
                if s['k'] == 'assign' and s['rv']['k'] == 'agg' and s['rv']['ak'] == 'adt' and {'e', 'v'} <= set(s['rv'].get('fields', [])):
                    i = s['rv']['fields'].index('e')
                    at = fr.lift(fr.fd.read_op(s['rv']['ops'][i]))
                    e_ok = e_ok or (any(a[0] == 'o' and a[1].endswith('thread_rng') for a in at) and any(a[0] == 'a' and a[1].endswith('::le') for a in at))
        # every candidate of the search is random_prime(le): the argument itself, not just some dependence on le
        za_ = ctx.zone(cfg)
        prime_args = []
        for fr in walk(eng, entry.path, max_depth=4, include_closures=True):
            if fr.path != entry.path and not fr.path.startswith(('cl03::signature::', 'cl03::blind::')):
                continue
            if fr.body.kind != 'Closure':
                za_.summary(fr.path)
            for bi_, t_ in fr.body.calls():
                if (local_target(eng, t_) or '').endswith('utils::random::random_prime') and t_['args']:
                    o_ = t_['args'][0]
                    for _ in range(4):
                        if o_.get('k') in ('copy', 'move') and not o_['pl'].get('p'):
                            ds_ = fr.fd.defs.get(o_['pl']['l'], [])
                            if len(ds_) == 1 and ds_[0][0] == 'assign' and ds_[0][2]['rv'].get('k') in ('use', 'cast'):
                                o_ = ds_[0][2]['rv']['op']
                                continue
                        break
                    prime_args.append(str(o_.get('uneval') or o_.get('disp') or '?').split('::')[-1] if o_.get('k') == 'const' else '?')
        yield Ob('RF-Q', '%s#e-candidates' % entry.path, bool(prime_args) and all(x == 'le' for x in prime_args),
                 'every candidate exponent is random_prime(le)', entry.span, fact={'arguments': sorted(set(prime_args))}, expected='le')
        ok = prime_in_loop and all(found.values()) and e_ok
        yield Ob('RF-Q', '%s#e-loop-exit' % entry.path, ok,
                 'the issued exponent leaves the generate-and-test loop only when 2^(le-1) < e < 2^le and gcd(e, phi(N)) == 1, and comes from random_prime(le)',
                 entry.span, fact={'loop_in': b.path.split('::')[-1], 'loop_with_random_prime': prime_in_loop, 'exit_tests': found, 'e_from_random_prime_le': e_ok}, expected='all true')
        # the sense of the tests: on every edge that leaves the search each of them *holds* (`== false` turned into `!= false`, `gcd != 1`, a
        # conjunction turned into a disjunction keep all three tests in the loop and leave it with a wrong exponent, or never)
        yield Ob('RF-Q', '%s#e-loop-exit-sense' % entry.path, all(sense.values()),
                 'each of the three tests holds on every edge that leaves the search: e above a bound in le, e below a bound in le, gcd(e, phi(N)) equal to 1',
                 entry.span, fact={'holding_on_exit': sense}, expected='all true')


# ---------------------------------------------------------------------------------- C14
def rule_issuing_functions_gated(ctx, cfg='prod-all', scope=('cl03::blind::',)):
    """Every function of the issuance module that takes the issuer's secret key *and* a commitment supplied from outside signs that commitment:
    it has to check a proof of knowledge for it (call `verify_proof`) before the key is used.  `blind_sign` does (judged path by path by
    `rule_blind_sign_gated`); a second entry point that takes a commitment but no proof re-issues on whatever it is given."""
    prog, eng = ctx.prog(cfg), ctx.eng(cfg)
    n = 0
    for p, b in sorted(prog.bodies.items()):
        if b.from_expansion or b.kind == 'Closure' or not p.startswith(scope):
            continue
        ksk = b.param_index('sk')
        kc = [k for k in range(1, b.arg_count + 1) if 'CL03Commitment' in b.local_ty(k) and 'Key' not in b.local_ty(k)]
        if ksk is None or not kc:
            continue
        if not b.is_pub:
            continue      # a private helper shared by the issuing functions: what reaches it is decided by the functions that can be called from outside
        n += 1
        gated = any((local_target(eng, t) or '').endswith('verify_proof') for bi, t in b.calls())
        yield Ob('RF-D', '%s#commitment-proven' % p, gated,
                 'a function that signs a commitment handed in from outside with the secret key checks a proof of knowledge for that commitment first',
                 b.span, fact={'commitment_parameters': [b.local_name(k) for k in kc], 'calls_verify_proof': gated}, expected='verify_proof before the key is used')
    yield Ob('RF-D', 'cl03#issuing-functions', n >= 2, 'issuing functions (secret key + commitment) examined', '', fact=n, expected='>= 2', nontrivial=False)


def rule_secure_pow_exponents(ctx, cfg='prod-all', scope=('cl03::', 'utils::random')):
    """`Integer::secure_pow_mod*` (rug) panics unless the exponent is greater than zero.  Where the crate uses it the exponent has to be positive
    by construction: a positive literal, or a draw with its top bit set (`random_bits`, `random_prime`).  An exponent that comes from an argument -
    an attribute, a response - can be zero or negative: an honest call (an attribute 0) then panics.  (`pow_mod*` takes any exponent and is not
    looked at here.)"""
    prog, eng = ctx.prog(cfg), ctx.eng(cfg)
    n = 0
    for p, b in sorted(prog.bodies.items()):
        if b.from_expansion or not p.startswith(scope):
            continue
        fd = eng.fndep(p)
        k_site = 0
        for bi, t in b.calls():
            cal = t.get('callee') or ''
            if not cal.startswith('rug::Integer::secure_pow_mod') or len(t['args']) < 2:
                continue
            n += 1
            at = fd.read_op(t['args'][1])
            consts = [a[1] for a in at if a[0] == 'c']
            outside = sorted(fmt_atom(b, a) for a in at if strip(a)[0] in ('p', 's') or (a[0] == 'o' and not a[1].endswith('thread_rng')))
            drawn = any(a[0] == 'o' and a[1].endswith('thread_rng') for a in at)
            positive_literal = bool(consts) and all(str(c).lstrip('-').isdigit() and int(c) > 0 for c in consts) and not drawn
            top_bit = drawn and any((local_target(eng, t2) or '').endswith(('random_bits', 'random_prime')) for _, t2 in b.calls())
            # a modular inverse (`invert*`: 0 < x^-1 < modulus) is positive whatever it was computed from
            inverse = False
            l_ = t['args'][1]['pl']['l'] if t['args'][1].get('k') in ('copy', 'move') else None
            for _ in range(8):
                ds_ = fd.defs.get(l_, []) if l_ is not None else []
                if len(ds_) != 1:
                    break
                kd, _b, x = ds_[0]
                if kd == 'assign' and x['rv'].get('k') in ('use', 'cast') and x['rv']['op'].get('k') in ('copy', 'move'):
                    l_ = x['rv']['op']['pl']['l']
                elif kd == 'assign' and x['rv'].get('k') == 'ref':
                    l_ = x['rv']['pl']['l']
                elif kd == 'call' and (x.get('callee') or '').split('::')[-1] in ('invert', 'invert_ref'):
                    inverse = True
                    break
                elif kd == 'call' and (x.get('callee') or '').endswith(('From::from', '::unwrap', '::expect', 'Into::into', 'Clone::clone', 'Complete::complete')) \
                        and x['args'] and x['args'][0].get('k') in ('copy', 'move'):
                    l_ = x['args'][0]['pl']['l']
                else:
                    break
            ok = inverse or (not outside and (positive_literal or top_bit))
            yield Ob('RF-F', '%s#secure-pow-exponent:%d' % (p, k_site), ok,
                     'the exponent of secure_pow_mod is positive by construction (a positive literal or a draw with its top bit set): the function panics otherwise',
                     '%s L%s' % (b.file(), t.get('line')), fact={'exponent_from': fmt_atoms(b, at)[:6], 'from_arguments': outside[:4]}, expected='literal > 0 or random_bits / random_prime')
            k_site += 1
    yield Ob('RF-F', 'cl03#secure-pow-sites', n >= 1, 'calls of secure_pow_mod examined', '', fact=n, expected='>= 1', nontrivial=False)


def rule_no_inclusive_count_ranges(ctx, cfg='prod-all', scope=('cl03::', 'utils::random')):
    """`0..=n` over a count or a length n visits n + 1 positions: one base too many, a default position list one longer than the attribute
    vector (the last position then has no attribute: an honest call panics), a loop that indexes one past the end.  The CL03 code has no such
    range; one that starts at 0 and ends at a length, a count parameter or an attribute count has to be tabled (none is).  (`1..=n` is the same
    positions as `0..n` shifted and is not looked at.)"""
    prog, za = ctx.prog(cfg), ctx.zone(cfg)
    n_ranges = 0
    found = []
    for p, b in sorted(prog.bodies.items()):
        if b.from_expansion or not p.startswith(scope):
            continue
        if b.kind != 'Closure':
            za.summary(p)
        zf = za.zf(p)
        for bi, st in b.stmts():
            rv = st.get('rv') or {}
            if st['k'] == 'assign' and rv.get('k') == 'agg' and str(rv.get('name', '')).endswith(('ops::Range', 'range::Range')):
                n_ranges += 1
        for bi, t in b.calls():
            if not (t.get('callee') or '').endswith('RangeInclusive::<Idx>::new') or len(t['args']) != 2:
                continue
            n_ranges += 1
            a, e = zf.term_op(t['args'][0]), zf.term_op(t['args'][1])
            if a is not None and a[0] is None and a[1] == 0 and (e is None or e[0] is not None):
                found.append({'in': p.split('::')[-1], 'line': t.get('line'), 'ends_at': (e[0] if e else '?')})
    yield Ob('RF-P', 'cl03#inclusive-ranges-from-zero', not found, 'no range `0..=n` over a count or length (it visits n + 1 positions)', '',
             fact={'ranges_examined': n_ranges, 'inclusive_from_zero': found[:6]}, expected='none')
    yield Ob('RF-P', 'cl03#ranges-examined', n_ranges >= 8, 'ranges examined', '', fact=n_ranges, expected='>= 8', nontrivial=False)


def rule_constant_base_positions(ctx, cfg='prod-all', scope=('cl03::',)):
    """Where the CL03 code takes a base by a *literal* position, the position is 0: `a_0` for the only attribute of `sign` / `verify` and for the
    blinding value of the per-attribute proofs, `g_0` of the commitment key.  Every other base is selected by the position of its attribute (a
    variable: RF-B).  A literal other than 0 pairs a value with a base no step of the protocols names - the two sides then disagree (signing with
    `a_1`, verifying with `a_0`)."""
    prog, eng = ctx.prog(cfg), ctx.eng(cfg)
    n, bad = 0, []
    for p, b in sorted(prog.bodies.items()):
        if b.from_expansion or not p.startswith(scope):
            continue
        fd = eng.fndep(p)
        for bi, t in b.calls():
            cal = t.get('callee') or ''
            if not cal.endswith(('Index::index', 'IndexMut::index_mut', '::get', '::get_mut')) or len(t['args']) != 2 or t['args'][1].get('k') != 'const' or 'int' not in t['args'][1]:
                continue
            at = fmt_atoms(b, fd.read_op(t['args'][0]))
            if not any(x.endswith(('a_bases.0', 'g_bases', 'a_bases')) or '.g_bases' in x or 'bases' in x.split('.')[-1] for x in at):
                continue
            n += 1
            if t['args'][1]['int'] != '0':
                bad.append({'in': p.split('::')[-1], 'line': t.get('line'), 'list': at[:2], 'position': t['args'][1]['int']})
    yield Ob('RF-B', 'cl03#literal-base-positions', not bad, 'a base taken by a literal position is the base of position 0', '',
             fact={'sites': n, 'other_positions': bad[:6]}, expected='all 0')
    yield Ob('RF-B', 'cl03#literal-base-sites', n >= 10, 'literal positions in base lists examined', '', fact=n, expected='>= 10', nontrivial=False)


def rule_no_early_accept(ctx, cfg='prod-all'):
    """A verifier that examines a list part by part (the per-attribute proofs, the range proofs) says *true* only after the loop has run to its end.
    A `return true` reached from inside the loop - before the list is exhausted - accepts after looking at some of the parts only (a refusal
    `return false` inside the loop turned into `return true` keeps every test in place and on the same operands).  In every bool function
    reachable from the CL03 verifier entry points: no block that builds `true` is dominated by the header of a loop unless the loop's exit on
    exhaustion dominates it as well."""
    from flow import accept_blocks, walk
    import rf_gatesets
    prog, eng = ctx.prog(cfg), ctx.eng(cfg)
    seen, n_loops, bad = set(), 0, []
    for e in rf_gatesets.ENTRIES['cl03']:
        entry = resolve_fn(prog, e)
        for fr in walk(eng, entry.path, include_closures=False):
            if fr.path in seen or not fr.path.startswith('cl03::') or fr.body.local_ty(0) != 'bool':
                continue
            seen.add(fr.path)
            b, fd = fr.body, fr.fd
            acc = [(bi, kind) for bi, kind, extra in accept_blocks(fd) if kind in ('true',)]
            for h, blocks in b.natural_loops():
                n_loops += 1
                # the exit taken when the iteration is over: the successor outside the loop of the block that asks the iterator for the next item
                ex = set()
                for x in blocks:
                    t = b.blocks[x]['term']
                    if t['k'] == 'switch':
                        for y in b.succ[x]:
                            if y not in blocks and not b.diverges(y):
                                ex.add((x, y))
                exhaustion = [y for x, y in ex if any(b.blocks[pp]['term']['k'] == 'call' and (b.blocks[pp]['term'].get('callee') or '').endswith('Iterator::next') for pp in b.pred[x])]
                for a, kind in acc:
                    if a in blocks or (b.dominates(h, a) and exhaustion and not any(b.dominates(y, a) for y in exhaustion)):
                        bad.append({'in': fr.path.split('::')[-1], 'line': b.blocks[a]['term'].get('line') or (b.blocks[a]['stmts'][-1].get('line') if b.blocks[a]['stmts'] else None)})
    yield Ob('RF-D', 'cl03#no-accept-inside-a-loop', not bad, 'no verifier says true from inside a loop over the parts of a proof (before the loop is exhausted)', '',
             fact={'bool_functions': len(seen), 'loops': n_loops, 'early_accepts': bad[:6]}, expected='none')
    yield Ob('RF-D', 'cl03#verifier-loops', n_loops >= 4, 'loops of the verifiers examined', '', fact=n_loops, expected='>= 4', nontrivial=False)


def rule_range_statement_intervals(ctx, cfg='prod-all'):
    """The intervals the range proofs of an issuance proof and of a signature proof are *about*: an attribute lies in [0, 2^lm - 1], the exponent
    e in [2^(le-1) + 1, 2^le - 1], the commitment randomness in [0, 2^ln - 1].  At every call of the range prover / verifier in `cl03::proof` the two
    bounds, evaluated as functions of the ciphersuite constants, are one of these three pairs - so prover and verifier state the same interval and it
    is the interval of the quantity proven (`2^lm` for `2^lm - 1`, `2^(le-2)`, `max - 2` are other intervals)."""
    import rf_senses
    prog, eng = ctx.prog(cfg), ctx.eng(cfg)
    n, bad = 0, []
    sides = {'prove': 0, 'verify': 0}
    for p, b in sorted(prog.bodies.items()):
        if not p.startswith('cl03::proof::') or b.from_expansion:
            continue
        fd = eng.fndep(p)
        for bi, t in b.calls():
            tgt = local_target(eng, t) or ''
            if not tgt.endswith(('Boudot2000RangeProof::prove', 'Boudot2000RangeProof::verify')):
                continue
            cb = prog.bodies[tgt]
            ka, kb = cb.param_index('rmin'), cb.param_index('rmax')
            if ka is None or kb is None:
                raise AnchorMissing('%s: parameters rmin / rmax' % tgt)
            n += 1
            sides[tgt.split('::')[-1]] += 1
            which = set()
            for i_env, val in enumerate(rf_senses._envs()):
                lo, hi = rf_senses._const_eval(fd, t['args'][ka - 1], val), rf_senses._const_eval(fd, t['args'][kb - 1], val)
                exp = {'attribute [0, 2^lm - 1]': (0, 2 ** val('lm') - 1), 'exponent [2^(le-1) + 1, 2^le - 1]': (2 ** (val('le') - 1) + 1, 2 ** val('le') - 1),
                       'randomness [0, 2^ln - 1]': (0, 2 ** val('ln') - 1)}
                hit = {k for k, v in exp.items() if v == (lo, hi)}
                which = hit if i_env == 0 else (which & hit)
                if lo is None or hi is None:
                    which = None
                    break
            if which is None:
                continue          # bounds handed in from elsewhere: not stated at this call
            if len(which) != 1:
                bad.append({'in': p.split('::')[-1], 'line': t.get('line'), 'callee': tgt.split('::')[-1]})
    yield Ob('RF-Q', 'cl03::proof#range-statements', not bad, 'every range proof is made and checked for the interval of the quantity it is about', '',
             fact={'calls': n, 'prover_calls': sides['prove'], 'verifier_calls': sides['verify'], 'other_intervals': bad[:6]}, expected='tabled intervals')
    yield Ob('RF-Q', 'cl03::proof#range-statement-calls', sides['prove'] >= 2 and sides['verify'] >= 2, 'range prover / verifier calls examined', '', fact=sides, expected='>= 2 each', nontrivial=False)


SP = 'cl03::sigma_protocols::'
PROVER_VERIFIER_PAIRS = [
    (RP + 'proof_same_secret', RP + 'verify_same_secret'),
    (RP + 'proof_large_interval_specific', RP + 'verify_large_interval_specific'),
    (SP + 'NISP2Commitments::nisp2_generate_proof_MultiSecrets', SP + 'NISP2Commitments::nisp2_verify_proof_MultiSecrets'),
    (SP + 'NISPMultiSecrets::nispMultiSecrets_generate_proof', SP + 'NISPMultiSecrets::nispMultiSecrets_verify_proof'),
    (SP + 'NISPSecrets::nisp2sec_generate_proof', SP + 'NISPSecrets::nisp2sec_verify_proof'),
    (SP + 'NISPSignaturePoK::nisp5_MultiAttr_generate_proof', SP + 'NISPSignaturePoK::nisp5_MultiAttr_verify_proof'),
]


PAIR_FORM = {PROVER_VERIFIER_PAIRS[0][0]: (4, 6), PROVER_VERIFIER_PAIRS[1][0]: (2, 3), PROVER_VERIFIER_PAIRS[2][0]: (4, 6), PROVER_VERIFIER_PAIRS[3][0]: (2, 3),
             PROVER_VERIFIER_PAIRS[4][0]: (2, 3), PROVER_VERIFIER_PAIRS[5][0]: (13, 19)}


def _operand_name(b, fd, op):
    """the parameter (with its named members) or the named local an operand stands for, through borrows, copies, clones and element access"""
    if op.get('k') not in ('copy', 'move'):
        return 'literal'
    r, path = fd.resolve_place(op['pl'])
    if fd.is_param(r):
        return b.local_name(r) + ''.join('.' + x for x in path if not str(x).isdigit())
    l = op['pl']['l']
    for _ in range(8):
        n = b.locals[l].get('name')
        if n:
            return n
        ds = fd.defs.get(l, [])
        if len(ds) != 1:
            break
        k, _b, x = ds[0]
        if k == 'assign' and x['rv'].get('k') in ('use', 'cast') and x['rv']['op'].get('k') in ('copy', 'move'):
            l = x['rv']['op']['pl']['l']
            continue
        if k == 'assign' and x['rv'].get('k') == 'ref':
            l = x['rv']['pl']['l']
            continue
        if k == 'call' and (x.get('callee') or '').endswith(('Deref::deref', 'Clone::clone', 'From::from', 'Index::index', '::get', '::unwrap', '::expect')) \
                and x['args'] and x['args'][0].get('k') in ('copy', 'move'):
            l = x['args'][0]['pl']['l']
            continue
        break
    r2, p2 = fd.resolve_place({'l': l})
    if fd.is_param(r2):
        return b.local_name(r2) + ''.join('.' + x for x in p2 if not str(x).isdigit())
    return '_'


def _powers(prog, eng, path):
    b = prog.bodies.get(path)
    if b is None:
        return []
    fd = eng.fndep(path)
    calls = [(t.get('line') or 0, bi, t) for bi, t in b.calls() if (t.get('callee') or '').split('::')[-1] in ('pow_mod_ref', 'pow_mod', 'secure_pow_mod', 'secure_pow_mod_ref')]
    out = []
    for ln, bi, t in sorted(calls, key=lambda z: (z[0], z[1])):
        base, exp = _operand_name(b, fd, t['args'][0]), _operand_name(b, fd, t['args'][1])
        base = base[len('self.'):] if base.startswith('self.') else base
        base = base[:-len('.value')] if base.endswith('.value') else base
        out.append((base, exp.split('.')[-1], ln))
    return out


def rule_prover_verifier_bases(ctx, cfg='prod-all'):
    """A sigma protocol's prover raises a list of bases to its masks (`w_1 = g_1^omega * h_1^mu_1`, `w_2 = g_2^omega * h_2^mu_2`); its verifier raises
    the *same bases in the same order* to the responses that took the masks' places (`g_1^d * h_1^d_1 * E^-c`, ..), plus the commitments to the
    challenge.  For every prover / verifier pair: the prover's sequence of bases is a subsequence of the verifier's, and where two positions share an
    exponent on one side they share one on the other (omega twice <-> d twice).  A swapped base (`g` for `h`), a mask used at the wrong position
    (`mu_2` under `h_1`) or a response read from the wrong member breaks the correspondence - honest proofs stop verifying, and nothing else in the
    code notices, because each side is consistent with itself."""
    prog, eng = ctx.prog(cfg), ctx.eng(cfg)
    n = 0
    for pp, vp in PROVER_VERIFIER_PAIRS:
        P, V = _powers(prog, eng, pp), _powers(prog, eng, vp)
        n += 1
        # align: greedy subsequence match of the prover's bases in the verifier's
        j, pairs, lost = 0, [], []
        for base, exp, ln in P:
            k = j
            while k < len(V) and V[k][0] != base:
                k += 1
            if k == len(V):
                lost.append({'base': base, 'mask': exp, 'line': ln})
                continue
            pairs.append(((base, exp), V[k]))
            j = k + 1
        # exponents: one response per mask
        fwd, back, clash = {}, {}, []
        for (base, pe), (vb, ve, vln) in pairs:
            if pe == '_' or ve == '_':
                continue
            if fwd.setdefault(pe, ve) != ve or back.setdefault(ve, pe) != pe:
                clash.append({'base': base, 'mask': pe, 'response': ve, 'elsewhere': fwd.get(pe) if fwd.get(pe) != ve else back.get(ve)})
        ok = bool(P) and not lost and not clash
        # judged on the form the pair has on the reviewed tree (so many powers written out in the prover, so many in the verifier): when the powers
        # were moved into helpers, closures or iterator chains their order in one body says nothing any more - undecided, not a violation
        if (len(P), len(V)) != PAIR_FORM.get(pp):
            ok = None
        yield Ob('RF-O', '%s#bases~%s' % (pp, vp.split('::')[-1]), ok,
                 'the verifier raises the prover\'s bases, in the prover\'s order, to the responses that took the masks\' places', prog.bodies[pp].span,
                 fact={'prover_powers': len(P), 'verifier_powers': len(V), 'bases_without_counterpart': lost[:4], 'masks_and_responses_that_do_not_correspond': clash[:4]},
                 expected='same bases in the same order, one response per mask')
    # the transcripts the two sides hash (range proof: an array handed to a local transcript function): same length, the same parameter at every
    # position that holds a parameter on both sides, no value listed twice
    from flow import _array_literal_of
    nt = 0
    for pp, vp in PROVER_VERIFIER_PAIRS[:2]:
        lists = []
        for path in (pp, vp):
            b = prog.bodies.get(path)
            if b is None:
                continue
            fd = eng.fndep(path)
            for bi, t in b.calls():
                tg = local_target(eng, t) or ''
                if tg.startswith('cl03::range_proof::') and t['args'] and tg.split('::')[-1] not in OPENING_PARAMS:
                    ops = _array_literal_of(fd, t['args'][0])
                    if ops and len(ops) >= 4:
                        params = [b.local_name(q) for q in range(1, b.arg_count + 1)]
                        lists.append([(nm_, nm_.split('.')[0] in params) for nm_ in (_operand_name(b, fd, o) for o in ops)])
        if len(lists) != 2:
            continue
        nt += 1
        P_, V_ = lists
        dup = [x for x, _p in P_ if [y for y, _q in P_].count(x) > 1] + [x for x, _p in V_ if [y for y, _q in V_].count(x) > 1]
        differ = [(i, a[0], c[0]) for i, (a, c) in enumerate(zip(P_, V_)) if a[1] and c[1] and a[0].split('.')[-1] != c[0].split('.')[-1]]
        yield Ob('RF-O', '%s#transcript~%s' % (pp, vp.split('::')[-1]), len(P_) == len(V_) and not dup and not differ,
                 'prover and verifier hash transcripts of the same length with the same parameters at the same positions and no value twice', prog.bodies[pp].span,
                 fact={'prover': [x for x, _p in P_], 'verifier': [x for x, _p in V_], 'listed_twice': sorted(set(dup)), 'different_parameters': differ[:4]}, expected='position by position')
    yield Ob('RF-O', 'cl03#prover-verifier-pairs', n >= 6, 'sigma-protocol prover / verifier pairs examined', '', fact={'pairs': n, 'transcript_pairs': nt}, expected='>= 6', nontrivial=False)


def rule_key_member_roles(ctx, cfg='prod-all'):
    """The two elements of a CL03 public key have different jobs: `b` is a *base* (raised to s, to r, to masks; handed on as `h` of the sub-protocols),
    `c` is a *factor* (multiplied in once; in the signature proof raised to the challenge by the verifier only).  Signing with `c^s * b` and
    verifying with `b^s * c` are each consistent with themselves.  Every use of `pk.b` / `pk.c` (also `signer_pk`) in the CL03 code is one of the
    uses its element has: b as base of a power, as argument of a sub-prover / sub-verifier, in `divm`, in a transcript; c as a factor of a
    product, in a transcript, and as a base only in `nisp5_MultiAttr_verify_proof`."""
    prog, eng = ctx.prog(cfg), ctx.eng(cfg)
    B_USES = ('pow_mod_ref', 'pow_mod', 'secure_pow_mod', 'secure_pow_mod_ref', 'divm', 'to_string', 'write_digits', 'clone', 'eq', 'ne', 'cmp', 'fmt')
    C_USES = ('mul', 'mul_assign', 'to_string', 'write_digits', 'clone', 'eq', 'ne', 'cmp', 'fmt')
    n, bad = 0, []
    for p, b in sorted(prog.bodies.items()):
        if not p.startswith('cl03::') or b.from_expansion or p.startswith('cl03::keys::'):
            continue
        fd = eng.fndep(p)
        for bi, t in b.calls():
            short = (t.get('callee') or '').split('::')[-1]
            local = local_target(eng, t)
            for i, a in enumerate(t['args']):
                if a.get('k') not in ('copy', 'move'):
                    continue
                nm = _operand_name(b, fd, a)
                if not nm.endswith(('pk.b', 'pk.c')):
                    continue
                n += 1
                member = nm[-1]
                if member == 'b':
                    ok = short in B_USES or (local is not None and local.startswith('cl03::'))
                    if short.startswith(('pow_mod', 'secure_pow_mod')) and i != 0:
                        ok = False       # b as an exponent or a modulus
                else:
                    ok = short in C_USES or (short.startswith('pow_mod') and i == 0 and p.endswith('nisp5_MultiAttr_verify_proof'))
                if not ok:
                    bad.append({'in': p.split('::')[-1], 'line': t.get('line'), 'member': member, 'used_as': '%s argument %d' % (short, i)})
    yield Ob('RF-B', 'cl03#key-member-roles', not bad, 'pk.b is used as a base (or handed on as one), pk.c as a factor', '',
             fact={'uses': n, 'other_uses': bad[:6]}, expected='b: base / argument / divm / transcript; c: factor / transcript')
    yield Ob('RF-B', 'cl03#key-member-uses', n >= 20, 'uses of pk.b / pk.c examined', '', fact=n, expected='>= 20', nontrivial=False)


OPENING_PARAMS = {'proof_of_square': [('x', 'r_1', 'E')], 'proof_large_interval_specific': [('x', 'r', 'E')], 'proof_same_secret': [('x', 'r_1', 'E'), ('x', 'r_2', 'F')]}


def _named_operands(b, fd, op, limit=200):
    """(the named local an operand stands for, the named locals / parameters its defining expression reads directly) - the walk stops at every
    named value, so `E_a_1 = g^(x_a_1^2) * h^r_a_1 mod n` reads {g, h, n, x_a_1, r_a_1} and not what x_a_1 was computed from"""
    l0 = op['pl']['l'] if op.get('k') in ('copy', 'move') else None
    for _ in range(6):
        if l0 is None or b.locals[l0].get('name'):
            break
        ds = fd.defs.get(l0, [])
        if len(ds) == 1 and ds[0][0] == 'assign' and ds[0][2]['rv'].get('k') == 'ref':
            l0 = ds[0][2]['rv']['pl']['l']
            continue
        if len(ds) == 1 and ds[0][0] == 'assign' and ds[0][2]['rv'].get('k') in ('use', 'cast') and ds[0][2]['rv']['op'].get('k') in ('copy', 'move'):
            l0 = ds[0][2]['rv']['op']['pl']['l']
            continue
        break
    if l0 is None:
        return None, set()
    seen, names, st = set(), set(), [l0]
    while st and len(seen) < limit:
        l = st.pop()
        if l in seen:
            continue
        seen.add(l)
        n = b.locals[l].get('name')
        if n and l != l0:
            names.add(n)
            continue
        if fd.is_param(l):
            continue
        for kind, bi, x in fd.defs.get(l, []):
            if kind == 'assign':
                rv = x['rv']
                for o in [rv.get('op'), rv.get('a'), rv.get('b')] + list(rv.get('ops') or []):
                    if isinstance(o, dict) and o.get('k') in ('copy', 'move'):
                        st.append(o['pl']['l'])
                if rv.get('pl'):
                    st.append(rv['pl']['l'])
            elif kind == 'call':
                for o in x['args']:
                    if o.get('k') in ('copy', 'move'):
                        st.append(o['pl']['l'])
    return b.locals[l0].get('name'), names


def rule_opening_triples(ctx, cfg='prod-all'):
    """A sub-prover of the range proof is handed a value, a randomness and the commitment `g^value * h^randomness` they open.  Where the commitment
    is computed in the calling function (it is a local there, not a parameter handed through), the expression that defines it reads exactly that
    value and that randomness, and both bases the sub-prover is given.  `proof_of_square(&x_a_2, &r_a_1, .., &E_a_1)` with E_a_1 made from x_a_1, or
    E_a_1 made with `h` twice, pairs a sub-proof with a commitment it does not open: the honest proof stops verifying."""
    prog, eng = ctx.prog(cfg), ctx.eng(cfg)
    n = 0
    for p, b in sorted(prog.bodies.items()):
        if not p.startswith('cl03::range_proof::') or b.kind == 'Closure' or b.from_expansion:
            continue
        fd = eng.fndep(p)
        k_site = {}
        for bi, t in b.calls():
            tgt = local_target(eng, t) or ''
            short = tgt.split('::')[-1]
            if short not in OPENING_PARAMS or tgt not in prog.bodies:
                continue
            cb = prog.bodies[tgt]
            for (px, pr, pe) in OPENING_PARAMS[short]:
                kx, kr, ke = cb.param_index(px), cb.param_index(pr), cb.param_index(pe)
                if None in (kx, kr, ke) or max(kx, kr, ke) > len(t['args']):
                    continue
                ename, reads = _named_operands(b, fd, t['args'][ke - 1])
                el = t['args'][ke - 1]['pl']['l'] if t['args'][ke - 1].get('k') in ('copy', 'move') else None
                if ename is None or ename in [b.local_name(q) for q in range(1, b.arg_count + 1)] or not reads:
                    continue        # the commitment is handed through from the caller's caller: judged where it is computed
                nx, nr = _operand_name(b, fd, t['args'][kx - 1]), _operand_name(b, fd, t['args'][kr - 1])
                # an intermediate that is a function of one named value only (`x_sq = x * x`) stands for that value
                for _round in range(2):
                    for nm_ in sorted(reads):
                        if nm_ in (nx, nr):
                            continue
                        ls_ = [i_ for i_, lc_ in enumerate(b.locals) if lc_.get('name') == nm_ and not fd.is_param(i_)]
                        if len(ls_) != 1:
                            continue
                        _n2, r2 = _named_operands(b, fd, {'k': 'copy', 'pl': {'l': ls_[0]}})
                        if len(r2) == 1:
                            reads = (reads - {nm_}) | r2
                bases = []
                for bn in ('g', 'h', 'g_1', 'h_1', 'g_2', 'h_2'):
                    kb = cb.param_index(bn)
                    if kb is not None and kb <= len(t['args']):
                        bases.append(_operand_name(b, fd, t['args'][kb - 1]))
                idx = k_site.get((short, pe), 0)
                k_site[(short, pe)] = idx + 1
                n += 1
                okv = nx in reads and nr in reads
                # the two bases of *this* commitment: for proof_same_secret the pair that goes with E (g_1, h_1) or with F (g_2, h_2)
                pair = bases[:2] if pe != 'F' else bases[2:4]
                okb = len(set(pair)) == 2 and all(x in reads for x in pair) if pair else True
                yield Ob('RF-J', '%s#opens:%s(%s)@%d' % (p, short, pe, idx), okv and okb,
                         'the commitment handed to the sub-prover is computed from the value and the randomness handed over with it, over the two bases handed over', '%s L%s' % (b.file(), t.get('line')),
                         fact={'commitment': ename, 'its_expression_reads': sorted(reads)[:8], 'value': nx, 'randomness': nr, 'bases': pair}, expected='reads value, randomness and both bases')
    yield Ob('RF-J', 'cl03::range_proof#opening-triples', n >= 4, 'sub-prover calls with a locally computed commitment examined', '', fact=n, expected='>= 4', nontrivial=False)


def _base_descriptor(b, fd, op):
    """how a base argument is selected: (list it is taken from, 'position 0' / 'position of the loop' / ..), or the plain name"""
    l = op['pl']['l'] if op.get('k') in ('copy', 'move') else None
    for _ in range(8):
        if l is None:
            break
        ds = fd.defs.get(l, [])
        if len(ds) != 1:
            break
        k, _b, x = ds[0]
        if k == 'assign' and x['rv'].get('k') in ('use', 'cast') and x['rv']['op'].get('k') in ('copy', 'move'):
            l = x['rv']['op']['pl']['l']
            continue
        if k == 'assign' and x['rv'].get('k') == 'ref':
            l = x['rv']['pl']['l']
            continue
        if k == 'call' and (x.get('callee') or '').endswith(('Index::index', '::get', '::get_unchecked')) and len(x['args']) == 2:
            cont = _operand_name(b, fd, x['args'][0])
            idx = x['args'][1]
            return (cont, 'position %s' % idx.get('int') if idx.get('k') == 'const' else 'a variable position')
        if k == 'call' and (x.get('callee') or '').endswith(('::unwrap', '::expect', 'Deref::deref', 'Clone::clone')) and x['args'] and x['args'][0].get('k') in ('copy', 'move'):
            l = x['args'][0]['pl']['l']
            continue
        break
    nm = _operand_name(b, fd, op)
    if len(fd.defs.get(l, [])) > 1:
        return (nm, 'a variable assigned in several places')
    return (nm, '')


SUBPROTOCOL_CALLS = [(('nisp2sec_generate_proof', ('g1', 'h1')), ('nisp2sec_verify_proof', ('g1', 'h1'))),
                     (('Boudot2000RangeProof::prove', ('base1', 'base2')), ('Boudot2000RangeProof::verify', ('base1', 'base2')))]


def rule_subprotocol_bases_agree(ctx, cfg='prod-all'):
    """`generate_proof` / `verify_proof` and `proof_gen` / `proof_verify` run the same sub-protocols in the same order; the k-th call of a
    sub-prover and the k-th call of its sub-verifier are handed bases selected the same way (the base of position 0, the base of the position the
    loop is at, the `h` of the commitment key ..).  A verifier that takes the base the loop variable was left at where the prover takes `a_0`
    is consistent with itself and refuses honest proofs for some hidden sets only."""
    prog, eng = ctx.prog(cfg), ctx.eng(cfg)
    n = 0
    for pf, vf in ((ZKI + 'generate_proof', ZKI + 'verify_proof'), (POKI + 'proof_gen', POKI + 'proof_verify')):
        pb, vb = resolve_fn(prog, pf), resolve_fn(prog, vf)
        for (pc, pparams), (vc, vparams) in SUBPROTOCOL_CALLS:
            seqs = []
            for b, suffix, params in ((pb, pc, pparams), (vb, vc, vparams)):
                fd = eng.fndep(b.path)
                seq = []
                for bi, t in sorted(b.calls(), key=lambda z: (z[1].get('line') or 0, z[0])):
                    tg = local_target(eng, t) or ''
                    if not tg.endswith(suffix):
                        continue
                    cb = prog.bodies[tg]
                    ks = [cb.param_index(x) for x in params]
                    if None in ks or max(ks) > len(t['args']):
                        continue
                    seq.append(tuple(_base_descriptor(b, fd, t['args'][k - 1]) for k in ks))
                seqs.append(seq)
            if not seqs[0] and not seqs[1]:
                continue
            n += 1
            same = len(seqs[0]) == len(seqs[1]) and all(tuple(d[1] for d in a) == tuple(d[1] for d in c) and
                                                         tuple(d[0].split('.')[-1] for d in a) == tuple(d[0].split('.')[-1] for d in c) for a, c in zip(seqs[0], seqs[1]))
            ok = same if len(seqs[0]) == len(seqs[1]) else None       # (a side restructured into helpers / loops: not judged)
            yield Ob('RF-B', '%s#sub-bases:%s' % (pb.path, pc.split('::')[-1]), ok, 'the k-th sub-prover call and the k-th sub-verifier call get bases selected the same way',
                     pb.span, fact={'prover': [[' / '.join(x for x in d if x) for d in a] for a in seqs[0]][:6], 'verifier': [[' / '.join(x for x in d if x) for d in a] for a in seqs[1]][:6]},
                     expected='the same selection call by call')
    yield Ob('RF-B', 'cl03#sub-protocol-call-pairs', n >= 2, 'sub-protocol call sequences compared', '', fact=n, expected='>= 2', nontrivial=False)


PAYLOAD_ADAPTERS = ('::map', '::and_then', '::map_or', '::map_or_else', '::inspect', '::into_iter', '::iter', '::unwrap_or', '::unwrap_or_default', '::unwrap_or_else')


def optional_payload_skips(prog, eng, b, k, _depth=0):
    """Which conditions decide whether the payload of the optional parameter k is used?
    S = the blocks that consume the payload (a call that takes the unwrapped value, or an adapter of Option applied to the parameter).  A switch
    *decides* when one of its successors can reach a normal return without S while another one cannot return without passing through S.
    Returns (S, [(switch block, atoms of its operand)]) - the caller says which atoms a deciding condition may read."""
    fd = eng.fndep(b.path)
    UNWRAPS = ('::unwrap', '::expect', '::as_ref', '::as_deref', '::copied', '::cloned', '::unwrap_unchecked', 'Deref::deref', 'Clone::clone',
               'IntoIterator::into_iter', 'Option::<T>::iter', 'Iterator::next')

    def is_param(l, depth=0):
        """the local is the parameter, a part of it, or what an unwrapping call makes of it (not a value computed from it)"""
        if l == k:
            return True
        if depth > 8:
            return False
        ds = fd.defs.get(l, [])
        if len(ds) != 1:
            return False
        kind, _, x = ds[0]
        if kind == 'assign':
            rv = x['rv']
            if rv.get('k') in ('use', 'cast') and rv['op'].get('k') in ('copy', 'move'):
                src = rv['op']['pl']
                # a member of a tuple the parameter was put into (`match (revealed, positions) { (Some(m), ..) => .. }`)
                fld = [pj for pj in src.get('p') or [] if pj.get('k') == 'field']
                td = [y for kd, _, y in fd.defs.get(src['l'], []) if kd == 'assign']
                if fld and len(td) == 1 and td[0]['rv'].get('k') == 'agg' and td[0]['rv'].get('ak') == 'tuple':
                    ops = td[0]['rv'].get('ops') or []
                    i = fld[0].get('i')
                    return i is not None and i < len(ops) and ops[i].get('k') in ('copy', 'move') and is_param(ops[i]['pl']['l'], depth + 1)
                return is_param(src['l'], depth + 1)
            if rv.get('k') == 'ref':
                return is_param(rv['pl']['l'], depth + 1)
            return False
        if kind == 'call':
            cal = x.get('callee') or ''
            a0 = (x.get('args') or [None])[0]
            return bool(a0) and cal.endswith(UNWRAPS) and a0.get('k') in ('copy', 'move') and is_param(a0['pl']['l'], depth + 1)
        return False

    S = set()
    inner = []
    for bi, t in b.calls():
        cal = t.get('callee') or ''
        if cal.endswith(UNWRAPS):
            continue
        for i, a in enumerate(t['args']):
            if a.get('k') not in ('copy', 'move') or not is_param(a['pl']['l']):
                continue
            ty = b.local_ty(a['pl']['l']) if not a['pl'].get('p') else ''
            wrapped = ty.startswith(('std::option::Option<', '&std::option::Option<'))
            if not wrapped:
                S.add(bi)
                continue
            if i == 0 and 'Option' in cal and cal.endswith(PAYLOAD_ADAPTERS):
                S.add(bi)
                # the payload goes to a closure (`revealed.map(|m| ..)`): what the closure does with it is judged the same way
                for a2 in t['args'][1:]:
                    cb = None
                    if a2.get('k') in ('copy', 'move') and not a2['pl'].get('p'):
                        for kd, _, y in fd.defs.get(a2['pl']['l'], []):
                            if kd == 'assign' and y['rv'].get('k') == 'agg' and y['rv'].get('ak') == 'closure':
                                cb = prog.bodies.get(y['rv'].get('name'))
                    if cb is not None and _depth < 4:
                        cS, cdec = optional_payload_skips(prog, eng, cb, 2, _depth + 1)
                        if not cS:
                            S.discard(bi)
                        inner.extend(cdec)
                continue
            # the optional value is handed on as it is to a function of the crate: that function decides (its conditions are reported with it)
            tgt = local_target(eng, t)
            if tgt and tgt in prog.bodies and _depth < 4 and prog.bodies[tgt].kind != 'Closure' and i + 1 <= prog.bodies[tgt].arg_count:
                cS, cdec = optional_payload_skips(prog, eng, prog.bodies[tgt], i + 1, _depth + 1)
                if cS:
                    S.add(bi)
                    inner.extend(cdec)
    rets = [bi for bi, blk in enumerate(b.blocks) if blk['term']['k'] == 'return' and not blk['cleanup']]
    # blocks from which a return is reachable without entering S
    skip = set()
    st = [r for r in rets if r not in S]
    while st:
        x = st.pop()
        if x in skip:
            continue
        skip.add(x)
        for pr in b.pred[x]:
            if pr not in S and pr not in skip:
                st.append(pr)
    # blocks from which a return is reachable at all
    live = set()
    st = list(rets)
    while st:
        x = st.pop()
        if x in live:
            continue
        live.add(x)
        st.extend(pr for pr in b.pred[x] if pr not in live)
    deciding = []
    for bi, blk in enumerate(b.blocks):
        t = blk['term']
        if t['k'] != 'switch' or blk['cleanup']:
            continue
        succ = [x for x in b.succ[bi] if x in live]
        if any(x in skip for x in succ) and any(x not in skip for x in succ):
            deciding.append((b, k, bi, fd.read_op(t['discr']) if t['discr'].get('k') in ('copy', 'move') else set()))
    return S, deciding + inner


def rule_optional_attributes_used(ctx, cfg='prod-all', scope=('cl03::blind::',), ptype='std::option::Option<&[utils::message::cl03_message::CL03Message]>'):
    """An issuing function that is handed the revealed attributes as an optional list uses them whenever they are there: the only condition that
    may lead past their use to a returned signature is the absence of the list itself.  (`if revealed.is_some() && positions.is_some()` drops the
    attributes silently when the positions are left to the default - the signature returned is one on other attributes.)"""
    prog, eng = ctx.prog(cfg), ctx.eng(cfg)
    n = 0
    for p, b in sorted(prog.bodies.items()):
        if b.from_expansion or b.kind == 'Closure' or not p.startswith(scope) or not b.is_pub:
            continue
        for k in range(1, b.arg_count + 1):
            if b.local_ty(k) != ptype:
                continue
            n += 1
            S, deciding = optional_payload_skips(prog, eng, b, k)
            foreign = []
            for db, dk, bi, at in deciding:
                other = sorted(set(fmt_atom(db, a) for a in at if not (strip(a)[0] == 'p' and strip(a)[1] == dk) and strip(a)[0] != 'c'))
                if other:
                    foreign.append({'fn': db.path.split('::')[-1], 'line': db.blocks[bi]['term'].get('line'), 'reads': other[:6]})
            yield Ob('RF-D', '%s#uses:%s' % (p, b.local_name(k)), bool(S) and not foreign,
                     'the attributes handed in are used whenever they are present (nothing but their absence leads past their use)', b.span,
                     fact={'uses': len(S), 'deciding_conditions': len(deciding), 'conditions_on_other_inputs': foreign}, expected='only the presence of the list decides')
    yield Ob('RF-D', 'cl03#optional-attribute-lists', n >= 2, 'issuing functions with an optional attribute list examined', '', fact=n, expected='>= 2', nontrivial=False)


def rule_blind_sign_gated(ctx, cfg='prod-all'):
    """every use of the secret key in blind_sign is dominated by the `verify_proof == true` edge."""
    prog, eng, ga = ctx.prog(cfg), ctx.eng(cfg), ctx.gates(cfg)
    b = resolve_fn(prog, BSI + 'blind_sign')
    fd = eng.fndep(b.path)
    ksk = b.param_index('sk')
    if ksk is None:
        raise AnchorMissing('sk parameter of blind_sign')
    # switch on the result of verify_proof
    vp = [(bi, t) for bi, t in b.calls() if (local_target(eng, t) or '').endswith('verify_proof')]
    if len(vp) != 1:
        yield Ob('RF-D', '%s#verify-proof-call' % b.path, False, 'blind_sign calls verify_proof exactly once', b.span, fact=len(vp), expected=1)
        return
    vbi, vt = vp[0]
    # blocks that read sk
    uses = set()
    for bi, blk in enumerate(b.blocks):
        if blk['cleanup']:
            continue
        for s in blk['stmts']:
            if s['k'] == 'assign':
                rv = s['rv']
                pls = []
                for o in (rv.get('op'), rv.get('a'), rv.get('b')):
                    if isinstance(o, dict) and o.get('k') in ('copy', 'move'):
                        pls.append(o['pl'])
                if rv['k'] in ('ref', 'discr'):
                    pls.append(rv['pl'])
                for o in rv.get('ops', []) if rv['k'] == 'agg' else []:
                    if o['k'] in ('copy', 'move'):
                        pls.append(o['pl'])
                for pl in pls:
                    if fd.resolve_place(pl)[0] == ksk:
                        uses.add(bi)
        t = blk['term']
        if t['k'] == 'call':
            for a in t['args']:
                if a['k'] in ('copy', 'move') and fd.resolve_place(a['pl'])[0] == ksk:
                    uses.add(bi)
    # gate: each use block must be control dependent on / dominated by the edge where the verify_proof result is true
    ok_all = bool(uses)
    bad = []
    for u in sorted(uses):
        gs = ga.block_gates(fd, u)
        good = False
        for g in gs:
            # the block runs on the edge where the verifier said *true* (`if zkpok.verify_proof(..) { panic }` has the gate, with the wrong sense)
            if g.kind == 'deleg' and (g.callee or '').endswith('verify_proof') and g.truth is True and not g.negated:
                good = True
        if not good and not any(g.kind == 'deleg' and (g.callee or '').endswith('verify_proof') for g in gs):
            # dominated by the continuation of the `if !verify { panic }` (the panic arm does not return)
            dom_edges = [(sw, su) for sw in range(b.n) if b.blocks[sw]['term']['k'] == 'switch' for su in b.succ[sw]
                         if b.dominates(su, u) and all(p == sw or b.dominates(su, p) for p in b.pred[su])]
            from flow import classify_switch
            for sw, su in dom_edges:
                g = classify_switch(eng, fd, sw)
                for g2 in ga._flatten(g):
                    if g2.kind == 'deleg' and (g2.callee or '').endswith('verify_proof'):
                        # the other edge must lead to a panic (not to the use)
                        others = [x for x in b.succ[sw] if x != su]
                        if all(u not in b.reachable(o) for o in others):
                            good = True
        if not good:
            bad.append(u)
            ok_all = False
    yield Ob('RF-D', '%s#sk-uses-gated' % b.path, ok_all, 'every statement that touches the secret key runs only after verify_proof returned true', b.span,
             fact={'blocks_using_sk': sorted(uses), 'ungated': bad}, expected='all gated')
    # verify_proof receives the same C, C_trusted, pk, a_bases, commitment_pk, indexes the caller was given
    want = ['C', 'C_trusted', 'pk', 'a_bases', 'commitment_pk', 'unrevealed_message_indexes']
    got = []
    for a in vt['args'][1:]:
        if a['k'] in ('copy', 'move'):
            r, p = fd.resolve_place(a['pl'])
            got.append(b.local_name(r))
        else:
            got.append('const')
    yield Ob('RF-B', '%s#verify-proof-args' % b.path, got == want, 'the proof is verified against the very values that are then signed', b.span, fact=got, expected=want)
    # the signed value derives from C (extended with the revealed attributes)
    for bi, s in b.stmts():
        if s['k'] == 'assign' and s['rv']['k'] == 'agg' and s['rv']['ak'] == 'adt' and s['rv']['name'].endswith('CL03BlindSignature'):
            i = s['rv']['fields'].index('v')
            at = fd.read_op(s['rv']['ops'][i])
            kc = b.param_index('C')
            yield Ob('RF-B', '%s#signs-C' % b.path, any(strip(a)[0] == 'p' and strip(a)[1] == kc for a in at), 'the signature value v is computed from the validated commitment C',
                     b.span, fact=fmt_atoms(b, at)[:14], expected='depends on C')


C14_REQS = [
    (ZKI + 'verify_proof', [
        {'id': 'multi-secret-pok', 'what': 'PoK of the committed attributes gates acceptance and depends on C, the bases, b, N and the hidden positions',
         'gate_callee': ['PartialEq'],
         'cover': ['C.value', 'a_bases', 'signer_pk.b', 'signer_pk.N', 'unrevealed_message_indexes', 'self.proof_commited_msgs']},
        {'id': 'per-attribute-pok', 'any_path': True, 'what': 'per-attribute PoK gates acceptance with base a_i', 'gate_callee': ['PartialEq'],
         'cover': ['self.proofs_commited_mi', 'a_bases', 'unrevealed_message_indexes', 'signer_pk.b', 'signer_pk.N']},
        {'id': 'range-proof-mi', 'any_path': True, 'what': 'per-attribute range proof gates acceptance', 'gate_callee': ['PartialEq'],
         'cover': ['self.range_proofs_mi', 'signer_pk.N', 'a:lm']},
        {'id': 'pok-r', 'what': 'PoK of the commitment randomness gates acceptance', 'gate_callee': ['PartialEq'],
         'cover': ['self.proof_r', 'a_bases', 'signer_pk.b', 'signer_pk.N']},
        {'id': 'trusted-pair', 'what': 'a trusted commitment is accepted only together with its commitment key (presence of the two is compared): otherwise '
                                       'the equality proof between C and the trusted commitment is skipped and the issuer signs against an unrelated trusted commitment',
         'gate_op': ['Eq', 'Ne'], 'gate_callee': ['PartialEq'], 'cover': ['C_trusted', 'commitment_pk']},
    ]),
]


def _prove_wrapper(prog, eng, path):
    """(atoms of the base argument in the helper's own terms, parameter that is the commitment) when `path` calls nisp2sec_generate_proof once
    with a commitment that is one of its parameters"""
    wb = prog.bodies.get(path)
    if wb is None or wb.kind == 'Closure':
        return None
    wfd = eng.fndep(path)
    sites = [t for bi, t in wb.calls() if (local_target(eng, t) or '').endswith('nisp2sec_generate_proof')]
    if len(sites) != 1 or len(sites[0]['args']) < 3 or sites[0]['args'][1]['k'] not in ('copy', 'move'):
        return None
    root, pth = wfd.resolve_place(sites[0]['args'][1]['pl'])
    if not wfd.is_param(root) or pth:
        return None
    return set(wfd.read_op(sites[0]['args'][2])), root


def rule_commit_prove_base_agreement(ctx, cfg='prod-all'):
    """for every (commit_*, nisp2sec_generate_proof) pair over the same commitment: the index selector of the commitment and the base handed to
    the proof either both depend on the hidden-position list, or neither does (Engler: one sibling does it, the other does not)."""
    prog, eng = ctx.prog(cfg), ctx.eng(cfg)
    za = ctx.zone(cfg)
    for suffix in (ZKI + 'generate_proof', POKI + 'proof_gen'):
        b = resolve_fn(prog, suffix)
        fd = eng.fndep(b.path)
        zf = za.zf(b.path)
        kidx = b.param_index('unrevealed_message_indexes')
        n = 0
        for bi, t in b.calls():
            tgt = local_target(eng, t) or ''
            if tgt.endswith('nisp2sec_generate_proof'):
                base_at = fd.read_op(t['args'][2])
                carg = t['args'][1]
            else:
                # a helper of the module that proves knowledge of the value it is given: nisp2sec_generate_proof(value, commitment, base, ..) on its own
                # parameters - its call here is the proof site, base and commitment are what is handed in for those parameters
                w = _prove_wrapper(prog, eng, tgt) if tgt.startswith('cl03::') and tgt in prog.bodies else None
                if w is None:
                    continue
                base_atoms_w, kc = w
                if kc - 1 >= len(t['args']):
                    continue
                base_at = set()
                for a in base_atoms_w:
                    base_at |= fd._inst_atom(a, t['args'])
                carg = t['args'][kc - 1]
            n += 1
            base_dep = any(strip(a)[0] == 'p' and strip(a)[1] == kidx for a in base_at)
            # the commitment argument -> the commit_* call that produced it
            commit_call = None
            l = carg['pl']['l'] if carg['k'] in ('copy', 'move') else None
            seen = set()
            while l is not None and l not in seen:
                seen.add(l)
                d = zf.single_def(l)
                if d is None:
                    break
                if d[0] == 'call':
                    tg = local_target(eng, d[2]) or ''
                    if tg.endswith(('commit_with_pk', 'commit_with_commitment_pk', 'commit_v')):
                        commit_call = d[2]
                        break
                    a0 = d[2]['args'][0] if d[2]['args'] else None
                    l = a0['pl']['l'] if a0 and a0['k'] in ('copy', 'move') else None
                    continue
                rv = d[2]['rv']
                if rv['k'] in ('use', 'cast') and rv['op']['k'] in ('copy', 'move'):
                    l = rv['op']['pl']['l']
                elif rv['k'] == 'ref':
                    l = rv['pl']['l']
                else:
                    break
            if commit_call is None:
                yield Ob('RF-B', '%s#pair[%d]' % (b.path, n), None, 'commitment argument could not be traced to a commit_* call', b.span, fact=None, expected=None)
                continue
            sel = commit_call['args'][-1]
            sel_at = fd.read_op(sel)
            sel_dep = any(strip(a)[0] == 'p' and strip(a)[1] == kidx for a in sel_at)
            ok = (sel_dep == base_dep)
            yield Ob('RF-B', '%s#commit~prove[%d]' % (b.path, n), ok,
                     'the commitment is built over the same base the proof of knowledge uses (both selected by the hidden position, or both fixed)',
                     '%s L%s' % (b.file(), t['line']),
                     fact={'commit_selector_depends_on_hidden_position': sel_dep, 'proof_base_depends_on_hidden_position': base_dep,
                           'commit_call': (local_target(eng, commit_call) or '').split('::')[-1], 'selector': fmt_atoms(b, sel_at)[:6]},
                     expected='equal')
        if n == 0:
            yield Ob('RF-B', '%s#no-pairs' % b.path, False, 'expected nisp2sec_generate_proof calls', b.span, fact=0, expected='>=1')


def rule_carried_commitment_equalities(ctx, cfg='prod-all', link=()):
    """RF-J: a sub-proof that carries its own copy of a commitment value must have that copy equated with the value the parent fixes."""
    prog = ctx.prog(cfg)
    table = [
        (POKI + 'proof_verify', [
            {'id': 'Ce==range_proof_e.E', 'what': 'range proof on e is about the commitment Ce of the signature proof', 'gate_callee': ['PartialEq'],
             'cover': ['self.spok.Ce.value', 'self.range_proof_e.E'], 'pure': ['self.spok.Ce.value', 'self.range_proof_e.E']},
            {'id': 'cmi==range_proofs_commited_mi.E', 'any_path': True, 'what': 'per-attribute range proof is about the commitment the PoK of m_i is about', 'gate_callee': ['PartialEq'],
             'cover': ['self.proofs_commited_mi.commitment.value', 'self.range_proofs_commited_mi.E'],
             'pure': ['self.proofs_commited_mi.commitment.value', 'self.range_proofs_commited_mi.E']},
        ]),
        (ZKI + 'verify_proof', [
            {'id': 'cmi==range_proofs_mi.E', 'any_path': True, 'what': 'per-attribute range proof is about the commitment the PoK of m_i is about', 'gate_callee': ['PartialEq'],
             'cover': ['self.proofs_commited_mi.commitment.value', 'self.range_proofs_mi.E'],
             'pure': ['self.proofs_commited_mi.commitment.value', 'self.range_proofs_mi.E']},
            {'id': 'cr==range_proof_r.E', 'what': 'range proof on r is about the commitment the PoK of r is about', 'gate_callee': ['PartialEq'],
             'cover': ['self.proof_r.commitment.value', 'self.range_proof_r.E'], 'pure': ['self.proof_r.commitment.value', 'self.range_proof_r.E']},
        ]),
        (RP + 'verify_of_tolerance_specific', [
            {'id': 'square_a.E==E_a_1', 'what': 'proof of square (a) is about the first component of the decomposition', 'gate_callee': ['PartialEq'],
             'cover': ['proof_wt.proof_of_square_a.E', 'proof_wt.E_a_1'], 'pure': ['proof_wt.proof_of_square_a.E', 'proof_wt.E_a_1']},
            {'id': 'square_b.E==E_b_1', 'what': 'proof of square (b) is about the first component of the decomposition', 'gate_callee': ['PartialEq'],
             'cover': ['proof_wt.proof_of_square_b.E', 'proof_wt.E_b_1'], 'pure': ['proof_wt.proof_of_square_b.E', 'proof_wt.E_b_1']},
        ]),
    ]
    for ob in rule_accept_requirements(ctx, table, cfg=cfg, rule='RF-J'):
        yield ob
    # the per-attribute sub-proofs are proofs about *the same* attributes as the main proof only if something equates them: a comparison the
    # verdict depends on must see both the per-attribute proof of m_i and the part of the main proof (or the commitment) that is about m_i
    link_table = [
        (ZKI + 'verify_proof', [
            {'id': 'per-attribute-link', 'any_path': True, 'gate_callee': ['PartialEq'],
             'what': 'the per-attribute proofs of knowledge / range proofs are tied to the commitment C that gets signed (a comparison sees both)',
             'alts': [{'cover': ['self.proofs_commited_mi', 'self.proof_commited_msgs']}, {'cover': ['self.proofs_commited_mi', 'C.value']},
                      {'cover': ['self.range_proofs_mi', 'C.value']}, {'cover': ['self.range_proofs_mi', 'self.proof_commited_msgs']}]},
        ]),
        (POKI + 'proof_verify', [
            {'id': 'per-attribute-link', 'any_path': True, 'gate_callee': ['PartialEq'],
             'what': 'the per-attribute proofs of knowledge / range proofs are tied to the proof of knowledge of the signature (a comparison sees both)',
             'alts': [{'cover': ['self.proofs_commited_mi', 'self.spok']}, {'cover': ['self.range_proofs_commited_mi', 'self.spok']}]},
        ]),
    ]
    want = [e for e in link_table if any(x in e[0] for x in link)]
    for ob in rule_accept_requirements(ctx, want, cfg=cfg, rule='RF-J'):
        yield ob


# ---------------------------------------------------------------------------------- RF-I / RF-K over the serialised proof types
def emitted_fields(prog, adt_path):
    """field names the (derived or hand written) Serialize impl of a local ADT emits; None if the type has no Serialize impl."""
    for p, b in prog.bodies.items():
        if b.j.get('impl_trait', '').endswith('ser::Serialize') and p.endswith('::serialize'):
            st = b.j.get('impl_self', '')
            if st == adt_path or st.startswith(adt_path + '<'):
                names = []
                for bi, t in b.calls():
                    cal = t.get('callee') or ''
                    if cal.endswith('serialize_field') or cal.endswith('serialize_newtype_struct') or cal.endswith('serialize_newtype_variant') \
                            or cal.endswith('serialize_element') or cal.endswith('serialize_entry'):
                        for a in t['args']:
                            if a['k'] == 'const' and a.get('ty', '').startswith('&') and 'str' in a.get('ty', ''):
                                names.append(a.get('disp', '').strip('"'))
                return names
    return None


def leaf_paths(prog, root, max_depth=8):
    """(path, adt, field, type) for every leaf reachable through emitted fields of local ADTs."""
    out = []
    st = [((), root, 0)]
    while st:
        path, tname, depth = st.pop()
        adt = prog.adts.get(tname)
        if adt is None or depth > max_depth:
            continue
        em = emitted_fields(prog, tname)
        for v in adt['variants']:
            for f in v['fields']:
                if em is not None and adt['kind'] == 'Struct' and f['name'] not in em:
                    continue
                ty = f['ty']
                inner = ty
                changed = True
                while changed:
                    changed = False
                    for pre in ('std::vec::Vec<', 'std::option::Option<'):
                        if inner.startswith(pre):
                            inner = inner[len(pre):-1]
                            changed = True
                if inner in prog.adts:
                    st.append((path + (f['name'],), inner, depth + 1))
                else:
                    out.append((path + (f['name'],), tname, f['name'], inner))
    return sorted(out)


OPENINGS = {('cl03::commitment::CL03Commitment', 'randomness')}


def rule_no_opening_serialised(ctx, cfg='prod-all'):
    prog = ctx.prog(cfg)
    for root in ('cl03::proof::CL03ZKPoK', 'cl03::proof::CL03PoKSignature'):
        if root not in prog.adts:
            raise AnchorMissing(root)
        leaves = leaf_paths(prog, root)
        n_open = 0
        for path, adt, field, ty in leaves:
            if (adt, field) in OPENINGS:
                n_open += 1
                yield Ob('RF-I', '%s#emits:%s' % (root, '.'.join(path)), False,
                         'the serialised proof contains the opening (randomness) of a commitment to a hidden value', prog.adts[root]['span'],
                         fact={'leaf': '.'.join(path), 'type': ty}, expected='not serialised')
        yield Ob('RF-I', '%s#leaf-census' % root, len(leaves) >= 10, 'serialised leaves of the proof type', prog.adts[root]['span'],
                 fact={'leaves': len(leaves), 'openings': n_open, 'sample': ['.'.join(p) for p, _, _, _ in leaves[:8]]}, expected='>= 10 leaves', nontrivial=False)


def rule_every_leaf_gates(ctx, cfg='prod-all', which=('pok', 'zkpok')):
    """RF-K: every serialised leaf of a proof must be an (explicit) source of some comparison the verifier's accept depends on."""
    prog, ga = ctx.prog(cfg), ctx.gates(cfg)
    specs = []
    if 'pok' in which:
        specs.append((POKI + 'proof_verify', 'cl03::proof::CL03PoKSignature'))
    if 'zkpok' in which:
        specs.append((ZKI + 'verify_proof', 'cl03::proof::CL03ZKPoK'))
    for vsuffix, root in specs:
        body = resolve_fn(prog, vsuffix)
        kself = body.param_index('self')
        aps = ga.accept_paths(body.path)
        leaves = leaf_paths(prog, root)
        for path, adt, field, ty in leaves:
            fails = 0
            for ap in aps:
                ok = False
                for g in ap['gates']:
                    if g.kind == 'deleg' or not gate_is_comparison(g):
                        continue      # a `match` / `if let` on an enclosing Option or enum reads a discriminant, not the leaf
                    for a in g.all_atoms():
                        if a[0] in ('len', 'narrow'):
                            continue      # the length of a list is not the value of one of its elements' fields
                        s = strip(a)
                        if s[0] == 'p' and s[1] == kself:
                            q = tuple(x for x in s[2] if x != '0')
                            # the compared value is computed from this leaf, or from a whole sub-structure that contains it
                            if q and q == path[:len(q)]:
                                ok = True
                    if ok:
                        break
                if not ok:
                    fails += 1
            yield Ob('RF-K', '%s#leaf:%s' % (body.path, '.'.join(path)), fails == 0,
                     'transmitted field must influence a comparison every accept path depends on (altering it must be able to change the verdict)',
                     body.span, fact={'accept_paths': len(aps), 'paths_without_gate': fails, 'type': ty}, expected='gates acceptance')


# ---------------------------------------------------------------------------------- prover and verifier agree on the interval of a response
def _expr_shape(zf, op, depth=0):
    """the arithmetic expression an operand holds, as a nested tuple of operation names with parameter names / literals at the leaves
    (borrows, copies, `Integer::from`, `complete()` are transparent); None where it cannot be followed"""
    from rf_bits import origin_call
    b = zf.body
    if depth > 14 or op is None:
        return None
    if op.get('k') == 'const':
        return ('lit', str(op.get('int', op.get('disp'))))
    if op.get('k') not in ('copy', 'move'):
        return None
    root, path = zf.fd.resolve_place(op['pl'])
    if zf.fd.is_param(root):
        return ('leaf', (b.local_name(root) + ''.join('.' + x for x in path)).split('.')[-1])
    oc = origin_call(zf, op['pl']['l']) or (origin_call(zf, root) if root != op['pl']['l'] else None)
    if oc is None and len(zf.fd.defs.get(root, [])) > 1 and b.locals[root].get('name'):
        return ('leaf', b.locals[root]['name'])        # a named variable assigned on several paths (`C` inside the retry loop)
    if oc is None:
        d = zf.single_def(op['pl']['l'])
        if d and d[0] == 'assign' and d[2]['rv']['k'] == 'binop':
            rv = d[2]['rv']
            return (rv['op'].replace('WithOverflow', ''), _expr_shape(zf, rv['a'], depth + 1), _expr_shape(zf, rv['b'], depth + 1))
        if d and d[0] == 'assign' and d[2]['rv']['k'] in ('use', 'cast') and d[2]['rv'].get('op'):
            return _expr_shape(zf, d[2]['rv']['op'], depth + 1)
        return None
    cal = oc.get('callee') or ''
    short = cal.split('::')[-1]
    if cal in ('std::convert::From::from', 'std::convert::Into::into', 'rug::Complete::complete', 'std::clone::Clone::clone', 'std::borrow::ToOwned::to_owned') and oc['args']:
        return _expr_shape(zf, oc['args'][0], depth + 1)
    kids = tuple(_expr_shape(zf, a, depth + 1) for a in oc['args'])
    if any(k is None for k in kids):
        return None
    return (short,) + kids


def rule_remainder_bound(ctx, cfg='prod-all'):
    """Boudot's proof with tolerance writes x - a' = x1^2 + x2 and proves x2 to lie in an interval whose width comes from the *remainder* bound
    2 * sqrt(b - a): that is what makes the overall tolerance theta small against 2^T.  Handing the larger-interval sub-proof the upper end of the
    range itself as its bound makes the interval it proves about 2^(T + t + l) * b wide, so x2 may be any value up to that (negative included)
    and a commitment to a value far outside [a, b] gets an accepted range proof.  Decided on the expression handed over as the bound of the
    larger-interval sub-proofs: it is computed from a square root."""
    prog, za, eng = ctx.prog(cfg), ctx.zone(cfg), ctx.eng(cfg)
    n = 0
    fns_seen = set()
    for fn in (RP + 'proof_of_tolerance_specific', RP + 'verify_of_tolerance_specific'):
        b = prog.bodies.get(fn)
        if b is None:
            raise AnchorMissing(fn)
        k = 0
        sites = []
        for bb in [b] + list(prog.closures_of(fn)):
            za.summary(bb.path)
            sites += [(za.zf(bb.path), bi, t) for bi, t in bb.calls()]
        for zf, bi, t in sites:
            tgt = local_target(eng, t) or ''
            if not tgt.endswith('large_interval_specific'):
                continue
            kb = prog.bodies[tgt].param_index('b')
            if kb is None or kb - 1 >= len(t['args']):
                raise AnchorMissing('%s: parameter b' % tgt)
            sh = _expr_shape(zf, t['args'][kb - 1])
            k += 1
            n += 1
            fns_seen.add(fn)
            ok = sh is not None and 'sqrt' in str(sh)
            yield Ob('RF-Q', '%s#remainder-bound[%d]' % (fn, k), ok,
                     'the bound of the larger-interval sub-proof is the bound of the remainder of the square decomposition (computed from a square root of the width), not the end of the range',
                     '%s L%s' % (b.file(), t.get('line')), fact={'bound_expression': str(sh)}, expected='an expression over sqrt(b - a)')
    yield Ob('RF-Q', 'cl03#remainder-bounds', len(fns_seen) == 2, 'larger-interval sub-proof calls examined in the prover and in the verifier', '',
             fact={'calls': n, 'functions': len(fns_seen)}, expected='both functions', nontrivial=False)


def _eval_shape(sh, env):
    """value of an expression shape for an assignment of integers to its leaves (None if an operation is not one of the arithmetic ones)"""
    k = sh[0]
    if k == 'lit':
        try:
            return int(sh[1].split('_')[0])
        except ValueError:
            return None
    if k == 'leaf':
        return env.setdefault(sh[1], 3 + 2 * len(env))
    vs = [_eval_shape(x, env) for x in sh[1:]]
    if any(v is None for v in vs):
        return None
    op = k.lower()
    if op in ('mul',) and len(vs) == 2:
        return vs[0] * vs[1]
    if op in ('add',) and len(vs) == 2:
        return vs[0] + vs[1]
    if op in ('sub',) and len(vs) == 2:
        return vs[0] - vs[1]
    if op in ('neg',) and len(vs) == 1:
        return -vs[0]
    if op in ('pow',) and len(vs) == 2 and 0 <= vs[1] < 4096:
        return vs[0] ** vs[1]
    if op in ('shl',) and len(vs) == 2 and 0 <= vs[1] < 4096:
        return vs[0] << vs[1]
    if op in ('rem',) and len(vs) == 2 and vs[1] != 0:
        return vs[0] % vs[1]
    return None


def _same_function(shapes_a, shapes_b):
    """do the two lists of expression shapes compute the same values?  Compared as values at several assignments of the leaves (an
    algebraic rewrite of one side is the same function; string equality of the shapes would not see that)"""
    if not shapes_a or len(shapes_a) != len(shapes_b):
        return False
    for seed in range(6):
        va = [_eval_shape(sh, _seeded({}, seed)) for sh in shapes_a]
        vb = [_eval_shape(sh, _seeded({}, seed)) for sh in shapes_b]
        if None in va or None in vb or sorted(va) != sorted(vb):
            return False
    return True


class _seeded(dict):
    """leaf assignment that derives a value from the leaf name and a seed (the same leaf gets the same value on both sides)"""
    def __init__(self, base, seed):
        super().__init__()
        self.seed = seed

    def setdefault(self, k, d=None):
        if k not in self:
            self[k] = 5 + (sum(ord(c) for c in k) * (self.seed + 3)) % 97
        return self[k]


def rule_response_interval_agreement(ctx, cfg='prod-all'):
    """Boudot's larger-interval proof: the prover repeats its draw until the response D_1 lies in an interval, and the verifier refuses a
    response outside that interval.  The two intervals have to be the same one: where the prover's is larger, an honest proof whose response
    falls into the difference is rejected.  Decided on the expressions D_1 is compared with on both sides (same operations over the same
    parameters and literals), compared as functions: evaluated at several
    assignments of the parameters."""
    prog, za = ctx.prog(cfg), ctx.zone(cfg)
    sides = {}
    unknown = set()
    for role, fn in (('prover', RP + 'proof_large_interval_specific'), ('verifier', RP + 'verify_large_interval_specific')):
        b = prog.bodies.get(fn)
        if b is None:
            raise AnchorMissing(fn)
        za.summary(fn)
        zf = za.zf(fn)
        bounds = set()
        for bi, t in b.calls():
            cal = t.get('callee') or ''
            if not cal.endswith(('PartialOrd::le', 'PartialOrd::lt', 'PartialOrd::ge', 'PartialOrd::gt')) or len(t['args']) != 2:
                continue
            shapes = [_expr_shape(zf, a) for a in t['args']]
            names = []
            for a in t['args']:
                nm = None
                if a.get('k') in ('copy', 'move'):
                    r0, p0 = zf.fd.resolve_place(a['pl'])
                    nm = (b.local_name(r0) or '') + ''.join('.' + x for x in p0)
                names.append(nm)
            for k in (0, 1):
                if names[k] and names[k].split('.')[-1] == 'D_1':
                    side = 'upper' if (cal.endswith(('::le', '::lt')) == (k == 0)) else 'lower'
                    if shapes[1 - k] is None or _eval_shape(shapes[1 - k], _seeded({}, 1)) is None:
                        unknown.add(side)          # an expression the rule cannot follow: that side is not judged
                    else:
                        bounds.add((side, shapes[1 - k]))
        sides[role] = bounds
    up = {r: sorted(str(x[1]) for x in sides[r] if x[0] == 'upper') for r in sides}
    lo = {r: sorted(str(x[1]) for x in sides[r] if x[0] == 'lower') for r in sides}
    ups = {r: [x[1] for x in sorted(sides[r], key=str) if x[0] == 'upper'] for r in sides}
    los = {r: [x[1] for x in sorted(sides[r], key=str) if x[0] == 'lower'] for r in sides}
    yield Ob('RF-O', RP + 'proof_large_interval_specific#D_1-upper-bound', None if 'upper' in unknown else _same_function(ups['prover'], ups['verifier']),
             'the prover keeps a response D_1 only below the bound the verifier accepts (same expression on both sides)', prog.bodies[RP + 'proof_large_interval_specific'].span,
             fact=up, expected='the same function of the parameters')
    yield Ob('RF-O', RP + 'proof_large_interval_specific#D_1-lower-bound', None if 'lower' in unknown else _same_function(los['prover'], los['verifier']),
             'the prover keeps a response D_1 only above the bound the verifier accepts (same expression on both sides)', prog.bodies[RP + 'proof_large_interval_specific'].span,
             fact=lo, expected='the same function of the parameters')


# ---------------------------------------------------------------------------------- the statement is part of the Fiat-Shamir challenge
FS_VERIFIERS = [SP + 'NISPSignaturePoK::nisp5_MultiAttr_verify_proof', SP + 'NISP2Commitments::nisp2_verify_proof_MultiSecrets',
                SP + 'NISPSecrets::nisp2sec_verify_proof', SP + 'NISPMultiSecrets::nispMultiSecrets_verify_proof',
                RP + 'verify_same_secret', RP + 'verify_large_interval_specific']


FS_ARMED = (SP + 'NISPSignaturePoK::nisp5_MultiAttr_verify_proof', SP + 'NISP2Commitments::nisp2_verify_proof_MultiSecrets',
            RP + 'verify_same_secret', RP + 'verify_large_interval_specific')


# calls by which a helper turns the values it is given into the text / octets that are hashed
TEXT_CALLS = ('ToString::to_string', 'fmt::Write::write_fmt', 'fmt::format', '::to_string_radix', '::to_digits', 'fmt::Display::fmt', '::write_digits')


def rule_statement_in_challenge(ctx, cfg='prod-all', rule='RF-C', skip=(), only=None):
    """Fiat-Shamir: the challenge has to be a hash of the statement (bases, public keys, commitments) together with the prover's first
    message; a challenge computed from the recomputed first message alone does not bind the proof to the statement it is checked against - the
    verifier then accepts the same proof for another key whenever the recomputation happens to agree (c replaced by N - c with an even exponent,
    a base or commitment replaced by another representative).  Decided per verifier on what is turned into text for the digest: a parameter
    is hashed *as itself* when `to_string` is applied to (a part of) it without any computation in between; every parameter of the verifier
    other than the proof, counts and index lists must be.  Armed for the two verifiers for which an accepted altered statement has been
    demonstrated; reported as information for the others."""
    prog, eng = ctx.prog(cfg), ctx.eng(cfg)
    n = 0
    for fn in FS_VERIFIERS:
        if any(fn.endswith(x) for x in skip) or (only and not any(x in fn for x in only)):
            continue
        b = prog.bodies.get(fn)
        if b is None:
            raise AnchorMissing(fn)
        fd = eng.fndep(fn)
        sites = _fs_hash_sites(eng, b)
        if len(sites) != 1:
            yield Ob(rule, '%s#hash-sites' % fn, False, 'exactly one challenge hash', b.span, fact=len(sites), expected=1)
            continue
        kself = b.param_index('self')
        raw = set()
        for bi, t in b.calls():
            if not (t.get('callee') or '').endswith('ToString::to_string') or not t['args'] or t['args'][0]['k'] not in ('copy', 'move'):
                continue
            root, path = fd.resolve_place(t['args'][0]['pl'])
            if fd.is_param(root):
                raw.add(b.local_name(root) + ''.join('.' + x for x in path[:1]))
        # values listed in an array literal that is handed to a local helper which turns each of its items into text (`transcript(&[&w, E, g, ..])`)
        from flow import _array_literal_of
        for bi, t in b.calls():
            tgt = local_target(eng, t)
            if tgt is None or tgt not in prog.bodies or tgt == fn:
                continue
            texts = any((t2.get('callee') or '').endswith(TEXT_CALLS) for bb in [prog.bodies[tgt]] + list(prog.closures_of(tgt)) for _bi, t2 in bb.calls())
            if not texts:
                continue
            for a in t['args']:
                lit = _array_literal_of(fd, a)
                for o in lit or []:
                    if o.get('k') in ('copy', 'move'):
                        root, path = fd.resolve_place(o['pl'])
                        if fd.is_param(root):
                            raw.add(b.local_name(root) + ''.join('.' + x for x in path[:1]))
        stmt = set()
        for k in range(1, b.arg_count + 1):
            if k == kself:
                continue
            ty = b.local_ty(k).replace('&mut ', '').lstrip('&').strip()
            if ty in ('usize', 'u32', 'u64', '[usize]') or 'usize' in ty or any(x in ty for x in ('ProofSs', 'ProofLi', 'ProofOfS', 'CL03Message')):
                continue
            stmt.add(b.local_name(k))
        missing = sorted(x for x in stmt if not any(r == x or r.startswith(x + '.') for r in raw))
        n += 1
        armed = fn in FS_ARMED
        yield Ob(rule, '%s#statement-in-challenge' % fn, (not missing) if armed else (True if not missing else None),
                 'every part of the statement is an ingredient of the challenge hash as itself (not only through the recomputed first message)',
                 '%s L%s' % (b.file(), sites[0][1].get('line')), fact={'hashed_as_themselves': sorted(raw), 'statement_parameters_not_hashed': missing},
                 expected='all statement parameters', nontrivial=armed)
    yield Ob(rule, 'cl03#fs-verifiers', n >= 2, 'Fiat-Shamir verifiers examined', '', fact=n, expected='>= 2', nontrivial=False)


def rule_whole_proof_anchor(ctx, cfg='prod-all', rule='RF-C'):
    """The larger-interval sub-proofs of Boudot's range proof hash, besides their own commitment, the commitment E the *whole* range proof is
    about: that is what ties them to E (their own commitments are derived ones, and E' = E^(2^T) is the same for E and for n - E when T >= 1).
    The ingredient is a parameter that is only hashed.  Decided on the call chains: from the two larger-interval functions the parameter is
    followed upwards through callers that hand their own parameter on unchanged; where a caller hands over something else, on the verifier
    side it has to be the field `E` of the range proof itself, and on the prover side the function that builds the range proof stores that same
    parameter as its `E`.  (A derived value such as E' in that place re-opens the substitution E -> n - E.)"""
    from rf_consts import _trace_identity
    from flow import _array_literal_of
    prog, eng = ctx.prog(cfg), ctx.eng(cfg)
    ADT = 'Boudot2000RangeProof'

    def hashed_only_params(fn):
        b = prog.bodies[fn]
        fd = eng.fndep(fn)
        hashed, used = set(), set()
        for bb in [b] + list(prog.closures_of(fn)):
            bfd = eng.fndep(bb.path)
            for bi, t in bb.calls():
                tgt = local_target(eng, t)
                helper = tgt is not None and tgt in prog.bodies and any((t2.get('callee') or '').endswith(TEXT_CALLS)
                                                                          for b2 in [prog.bodies[tgt]] + list(prog.closures_of(tgt)) for _b, t2 in b2.calls())
                is_text = (t.get('callee') or '').endswith(TEXT_CALLS)
                for a in t['args']:
                    ops = [a]
                    if helper:
                        ops = list(_array_literal_of(bfd, a) or [a])
                    for o in ops:
                        if o.get('k') not in ('copy', 'move'):
                            continue
                        root, path = bfd.resolve_place(o['pl'])
                        if bb is not b or not bfd.is_param(root):
                            continue
                        if (helper or is_text) and not path:
                            hashed.add(root)
                        else:
                            used.add(root)      # an operand of a computation (directly: what is computed from the hash does not count)
        return sorted(k for k in hashed if k not in used and b.local_ty(k).lstrip('&').strip().endswith('rug::Integer'))

    callers = {}
    creators = {}
    for p, b in prog.bodies.items():
        if not p.startswith('cl03::range_proof::'):
            continue
        for bi, t in b.calls():
            tgt = local_target(eng, t)
            if tgt:
                callers.setdefault(tgt, []).append((b, bi, t))
        for bi, st in b.stmts():
            if st['k'] == 'assign' and st['rv']['k'] == 'agg' and st['rv'].get('ak') == 'closure':
                creators[st['rv']['name']] = (b, st['rv'])

    def trace(cb, arg):
        """(function, parameter) the argument is, unchanged - through the captures of a closure into the function that creates it"""
        cfd = eng.fndep(cb.path)
        for _ in range(4):
            if cb.kind == 'Closure' and arg.get('k') in ('copy', 'move'):
                root, path = cfd.resolve_place(arg['pl'])
                if root == 1 and len(path) >= 1 and str(path[0]).isdigit() and cb.path in creators:
                    pb, rv = creators[cb.path]
                    if int(path[0]) < len(rv['ops']) and len(path) == 1:
                        cb, arg = pb, rv['ops'][int(path[0])]
                        cfd = eng.fndep(cb.path)
                        continue
            break
        pk, chain, why = _trace_identity(cfd, cb, arg)
        return cb, cfd, arg, pk, why
    n = 0
    for leaf, side in ((RP + 'verify_large_interval_specific', 'verifier'), (RP + 'proof_large_interval_specific', 'prover')):
        if leaf not in prog.bodies:
            raise AnchorMissing(leaf)
        anchors = hashed_only_params(leaf)
        yield Ob(rule, '%s#whole-proof-ingredient' % leaf, len(anchors) >= 1,
                 'the challenge of the larger-interval sub-proof has an ingredient that is only hashed (the commitment the whole range proof is about)',
                 prog.bodies[leaf].span, fact={'parameters_only_hashed': [prog.bodies[leaf].local_name(k) for k in anchors]}, expected='>= 1')
        S = {(leaf, k) for k in anchors}
        work = list(S)
        tops = []
        while work:
            fn, k = work.pop()
            for (cb, bi, t) in callers.get(fn, []):
                if k - 1 >= len(t['args']):
                    continue
                cb, cfd, arg, pk, why = trace(cb, t['args'][k - 1])
                if pk is not None and cb.kind != 'Closure':
                    if (cb.path, pk) not in S:
                        S.add((cb.path, pk))
                        work.append((cb.path, pk))
                else:
                    tops.append((cb, cfd, bi, t, arg, why))
        if side == 'verifier':
            for (cb, cfd, bi, t, arg, why) in tops:
                n += 1
                ok, got = False, why
                if arg['k'] in ('copy', 'move'):
                    root, path = cfd.resolve_place(arg['pl'])
                    got = '%s%s' % (cb.local_name(root), ''.join('.' + x for x in path))
                    ok = cfd.is_param(root) and cb.local_ty(root).lstrip('&').strip().endswith(ADT) and tuple(path) == ('E',)
                yield Ob(rule, '%s#whole-proof-commitment' % cb.path, ok,
                         'what the larger-interval challenges are bound to is the commitment E of the range proof itself (not a value derived from it)',
                         '%s L%s' % (cb.file(), t.get('line')), fact={'handed_over': got}, expected='self.E')
        else:
            # the function that builds the range proof stores, as E, the parameter that is handed down
            for p, b in sorted(prog.bodies.items()):
                if not p.startswith('cl03::range_proof::') or b.kind == 'Closure':
                    continue
                fd = eng.fndep(p)
                for bi, st in b.stmts():
                    if st['k'] == 'assign' and st['rv']['k'] == 'agg' and st['rv'].get('ak') == 'adt' and st['rv']['name'].endswith(ADT) and 'E' in [str(f) for f in st['rv'].get('fields', [])]:
                        o = st['rv']['ops'][[str(f) for f in st['rv']['fields']].index('E')]
                        pk, chain, why = _trace_identity(fd, b, o)
                        n += 1
                        yield Ob(rule, '%s#whole-proof-commitment' % p, pk is not None and (p, pk) in S,
                                 'the commitment stored as E of the range proof is the value the larger-interval challenges are bound to',
                                 '%s L%s' % (b.file(), st.get('line')), fact={'E_is_parameter': b.local_name(pk) if pk else why,
                                                                               'handed_down_unchanged': sorted(b.local_name(k) for (f_, k) in S if f_ == p)},
                                 expected='the same parameter')
    yield Ob(rule, 'cl03#whole-proof-anchor', n >= 2, 'places where the whole-proof commitment enters the larger-interval challenges', '', fact=n, expected='>= 2', nontrivial=False)


def rule_no_copy_of_input_commitment(ctx, cfg='prod-all', rule='RF-I'):
    """The provers are handed commitments together with their opening (`CL03Commitment { value, randomness }`): the commitment that gets
    signed (C), the trusted one.  What they return is serialised and sent.  No member of what a prover builds may be a *copy* of such a
    parameter (or of its `randomness`): the responses may depend on the opening only through a masked sum.  Decided on every aggregate and
    every `push` of the prover and its closures: an operand is followed backwards through copies, borrows, clones and `to_owned` on every
    definition it has (`match n { [_] => C.clone(), _ => fresh }` has two); reaching the parameter itself or its randomness is a violation,
    its public `value` is not."""
    from rf_consts import IDENTITY_CALLS
    prog, eng = ctx.prog(cfg), ctx.eng(cfg)
    n = 0
    for fn in (ZKI + 'generate_proof', POKI + 'proof_gen'):
        b0 = resolve_fn(prog, fn)
        secrets = {k for k in range(1, b0.arg_count + 1) if 'CL03Commitment' in b0.local_ty(k) and 'Key' not in b0.local_ty(k)}
        if not secrets:
            n += 1
            yield Ob(rule, '%s#no-copy-of-input-commitment' % b0.path, None, 'no commitment with its opening among the parameters', b0.span, fact=[], expected='-')
            continue
        hits = []
        for b in [b0] + list(prog.closures_of(b0.path)):
            fd = eng.fndep(b.path)
            is_closure = b.kind == 'Closure'

            def reaches_secret(o, depth=0, seen=None):
                seen = seen if seen is not None else set()
                if o.get('k') not in ('copy', 'move') or depth > 12:
                    return None
                root, path = fd.resolve_place(o['pl'])
                if not is_closure and root in secrets:
                    return (root, path) if (not path or path[0] == 'randomness') else None
                if is_closure and root == 1:
                    return None      # (captures: the enclosing function's operands are looked at there)
                if root in seen or fd.is_param(root):
                    return None
                seen.add(root)
                for kind, bi, x in fd.defs.get(root, []):
                    if x.get('dst', {}).get('p'):
                        continue
                    if kind == 'assign':
                        rv = x['rv']
                        src = None
                        if rv['k'] in ('use', 'cast'):
                            src = rv['op']
                        elif rv['k'] in ('ref', 'rawptr'):
                            src = {'k': 'copy', 'pl': rv['pl']}
                        elif rv['k'] == 'agg' and rv.get('ak') == 'adt' and rv['name'].split('::')[-1] in ('Option', 'Cow') and len(rv.get('ops', [])) == 1:
                            src = rv['ops'][0]
                        if src is not None:
                            # the part of the source that ends up here
                            if src.get('k') in ('copy', 'move') and path:
                                src = {'k': 'copy', 'pl': {'l': src['pl']['l'], 'p': list(src['pl'].get('p', [])) + [{'k': 'field', 'n': q, 'adt': ''} for q in path]}}
                            r = reaches_secret(src, depth + 1, seen)
                            if r is not None:
                                return r
                    elif kind == 'call':
                        if (x.get('callee') or '') in IDENTITY_CALLS and x['args']:
                            r = reaches_secret(x['args'][0], depth + 1, seen)
                            if r is not None:
                                return r
                return None
            sites = []
            for bi, st in b.stmts():
                if st['k'] == 'assign' and st['rv']['k'] == 'agg' and st['rv'].get('ak') == 'adt' and not st['rv']['name'].startswith(('std::', 'core::')):
                    for f, o in zip(st['rv'].get('fields', []), st['rv']['ops']):
                        sites.append(('%s.%s' % (st['rv']['name'].split('::')[-1], f), o, st.get('line')))
            for bi, t in b.calls():
                if (t.get('callee') or '') == 'std::vec::Vec::<T, A>::push' and len(t['args']) == 2:
                    sites.append(('push', t['args'][1], t.get('line')))
            for what, o, line in sites:
                r = reaches_secret(o)
                if r is not None:
                    hits.append({'member': what, 'line': line, 'copy_of': b0.local_name(r[0]) + ''.join('.' + x for x in r[1])})
        n += 1
        yield Ob(rule, '%s#no-copy-of-input-commitment' % b0.path, not hits,
                 'no member of what the prover builds is a copy of a commitment it was given together with its opening', b0.span,
                 fact={'commitment_parameters': sorted(b0.local_name(k) for k in secrets), 'copies': hits[:4]}, expected='none')
    yield Ob(rule, 'cl03#provers-examined', n >= 2, 'provers examined', '', fact=n, expected='>= 2', nontrivial=False)


# ---------------------------------------------------------------------------------- list fields have the expected number of entries
def vec_field_paths(prog, root, max_depth=6):
    """paths of the list-typed (Vec) fields of a serialised proof type, not descending into the elements of a list"""
    out = []
    st = [((), root, 0)]
    while st:
        path, tname, depth = st.pop()
        adt = prog.adts.get(tname)
        if adt is None or depth > max_depth:
            continue
        for v in adt['variants']:
            for f in v['fields']:
                ty = f['ty']
                while ty.startswith('std::option::Option<'):
                    ty = ty[len('std::option::Option<'):-1]
                if ty.startswith('std::vec::Vec<'):
                    out.append(path + (f['name'],))
                elif ty in prog.adts:
                    st.append((path + (f['name'],), ty, depth + 1))
    return sorted(out)


def _crosses_option(prog, root, lp):
    tname = root
    for f in lp:
        adt = prog.adts.get(tname)
        if adt is None:
            return False
        ty = None
        for v in adt['variants']:
            for fl in v['fields']:
                if fl['name'] == f:
                    ty = fl['ty']
        if ty is None:
            return False
        if ty.startswith('std::option::Option<'):
            return True
        tname = ty
    return False


def rule_list_fields_counted(ctx, specs, cfg='prod-all', rule='RF-K'):
    """A proof carries lists (responses, per-attribute sub-proofs) whose entries the verifier walks along the list of hidden positions; entries
    beyond that are never looked at.  Per list field and per accept path: some comparison every path to the accept passes depends on the
    *length* of the list - otherwise the proof with extra entries appended verifies as well (an altered proof that is accepted)."""
    prog, ga = ctx.prog(cfg), ctx.gates(cfg)
    n = 0
    for vsuffix, root in specs:
        body = resolve_fn(prog, vsuffix)
        kself = body.param_index('self')
        aps = ga.accept_paths(body.path)
        for vp in vec_field_paths(prog, root):
            n += 1
            bad = []
            optional = _crosses_option(prog, root, vp)
            for ap in aps:
                ok = False
                ordered = set()
                for g in ap['gates']:
                    if g.kind == 'deleg' or not gate_is_comparison(g) or not (g.dom is True or optional):
                        continue      # (a part of the proof that is present only in one mode of use is examined in that mode only)
                    hit = False
                    for a in g.all_atoms():
                        if a[0] not in ('len', 'narrow'):
                            continue
                        st = strip(a)
                        if st[0] == 'p' and st[1] == kself:
                            q = tuple(x for x in st[2] if x != '0')
                            if q and q == vp[:len(q)]:
                                hit = True
                    if not hit:
                        continue
                    # the number of entries has to be *the* number the statement requires: an equality (or a pair of order comparisons);
                    # `needed > given` alone lets surplus entries through, `needed < given` alone missing ones
                    if g.kind == 'cmp' and g.what in ('Lt', 'Le', 'Gt', 'Ge') or (g.kind == 'call' and ('PartialOrd::' in (g.what or '') or 'Ord::cmp' in (g.what or ''))):
                        ordered.add((g.fn, g.block, g.line, g.what))
                        if len(ordered) >= 2:
                            ok = True
                    elif g.kind == 'cmp' and ((g.what == 'Eq' and g.truth is False) or (g.what == 'Ne' and g.truth is True)):
                        pass          # reached when the lengths differ
                    else:
                        ok = True
                    if ok:
                        break
                if not ok:
                    bad.append(ap['block'])
            yield Ob(rule, '%s#entries:%s' % (body.path, '.'.join(vp)), not bad,
                     'the number of entries of the list is compared with what the statement requires on every accept path (appended entries are not ignored)',
                     body.span, fact={'accept_paths': len(aps), 'paths_without_a_length_comparison': bad[:6]}, expected='length compared')
    yield Ob(rule, 'crate#list-fields', n >= 1, 'list fields examined', '', fact=n, expected='>= 1', nontrivial=False)


# ---------------------------------------------------------------------------------- canonical representatives
def _leaf_of(atom, kself, leaves):
    """the serialised leaf path a parameter atom of `self` stands for (the atom may name a whole sub-structure: then every leaf below it)"""
    if atom[0] in ('len', 'narrow') or (atom[0] in ('nr', 'mod', 'h') and atom[1][0] in ('len', 'narrow')):
        return []          # the length of a list is not the value of one of its elements' fields
    st = strip(atom)
    if st[0] != 'p' or st[1] != kself:
        return []
    q = tuple(x for x in st[2] if x != '0')
    if not q:
        return []
    return [lp for lp in leaves if lp[:len(q)] == q or q[:len(lp)] == lp]



REPRESENTATIVE_SPECS = {
    'C13': [(SIGI + 'verify', 'cl03::signature::CL03Signature'), (SIGI + 'verify_multiattr', 'cl03::signature::CL03Signature')],
    'C14': [(ZKI + 'verify_proof', 'cl03::proof::CL03ZKPoK')],
    'C15': [(POKI + 'proof_verify', 'cl03::proof::CL03PoKSignature')],
    'C16': [(RP + 'verify', 'cl03::range_proof::Boudot2000RangeProof')],
}


def _crosses_vec(prog, root, lp):
    """is the leaf an element (or part of an element) of a list field?"""
    tname = root
    for f in lp:
        adt = prog.adts.get(tname)
        if adt is None:
            return False
        ty = None
        for v in adt['variants']:
            for fl in v['fields']:
                if fl['name'] == f:
                    ty = fl['ty']
        if ty is None:
            return False
        if 'std::vec::Vec<' in ty:
            return True
        while ty.startswith('std::option::Option<'):
            ty = ty[len('std::option::Option<'):-1]
        tname = ty
    return False


def _order_sides(g, kself):
    """(bounds from below, bounds from above) for a comparison that orders its operands (`<`, `>=`, cmp, cmp_abs, a sign test), None for
    the others.  Below: against 0 or by a sign test.  Above: against something that is not part of the proof and not 0 (a modulus, a power)."""
    w = g.what or ''
    sign_test = w.endswith(('::cmp0', '::is_negative', '::is_positive', '::signum'))
    is_order = (g.kind == 'cmp' and g.what in ('Lt', 'Le', 'Gt', 'Ge')) or sign_test or w.endswith(('::cmp_abs', 'Range<Idx>::contains', 'RangeBounds::contains')) \
        or 'PartialOrd::' in w or 'Ord::cmp' in w
    if not is_order:
        return None
    atoms = g.all_atoms()

    def is_zero(a):
        return a[0] == 'c' and str(a[1]).split('_')[0] in ('0', '-1')
    zero = sign_test or any(is_zero(a) for a in atoms) or any(str(c) in ('0', '-1') for c in (g.const_ops or []))
    bound = any((strip(a)[0] == 'p' and strip(a)[1] != kself) or strip(a)[0] == 'a' or (a[0] == 'c' and not is_zero(a)) for a in atoms)
    return (zero, bound)


def _truncating_rem_of(prog, eng, g):
    """is the residue this comparison looks at made with the truncating remainder (`%`, `%=`)?  Read off the backward slice of the condition in
    the function the comparison stands in."""
    from rf_bits import _slice_callees
    b = prog.bodies.get(g.fn)
    if b is None or g.block is None or g.block >= len(b.blocks):
        return False
    t = b.blocks[g.block]['term']
    if t['k'] == 'switch' and t['discr'].get('k') in ('copy', 'move'):
        ops = [t['discr']]
    else:
        # a predicate that hands its verdict back (`|x| x % n == *x`): the comparison calls of the body
        ops = [a for bi, t2 in b.calls() if (t2.get('callee') or '') == (g.what or '') for a in t2['args']]
        if not ops:
            return False
    names = _slice_callees(b, eng.fndep(g.fn), ops)
    return bool(names & {'rem', 'rem_assign'}) and not (names & {'rem_euc', 'rem_floor', 'modulo', 'modulo_ref', 'modulo_mut', 'abs', 'abs_ref', 'is_negative', 'signum', 'cmp0'})


def rule_canonical_representatives(ctx, specs, cfg='prod-all', rule='RF-K', skip=()):
    """A transmitted integer that stands for a residue class (it only ever enters `pow_mod` bases, `% n`, inversions) can be replaced by
    any other representative (x + k*n) unless the verifier also looks at the integer itself.  Per leaf x of the proof / signature type and per
    accept path: x is *pinned* when some comparison every path to the accept passes depends on the representative of x -
      . through anything but ring operations (an exponent, a digest input, a conversion: the value compared changes with the representative), or
      . through ring operations only (an equality or order test of a polynomial in x) while every other leaf the same test sees that way is
        pinned already (two unpinned leaves compared with each other can be shifted together).
    Decided with the dependence engine that labels each dependence R / N / M / H (dep.label_of).  A leaf that no comparison sees except
    reduced modulo something is reported: its other representatives verify as well."""
    from dep import label_of
    prog, ga = ctx.prog(cfg), ctx.gates_modular(cfg)
    n_leaves = 0
    for vsuffix, root in specs:
        body = resolve_fn(prog, vsuffix)
        kself = body.param_index('self')
        aps = ga.accept_paths(body.path)
        leaves = [lp for lp, adt, field, ty in leaf_paths(prog, root) if ty.endswith('rug::Integer') and (adt, field) not in OPENINGS and '.'.join(lp) not in skip]
        per_element = {lp for lp in leaves if _crosses_vec(prog, root, lp)}
        if not aps:
            yield Ob(rule, '%s#accept-sites' % body.path, False, 'no accept site found in verifier', body.span, fact=0, expected='>=1')
            continue
        unpinned = {}
        for ap in aps:
            pinned = set()
            below, above = set(), set()      # leaves an order comparison bounds from below (against 0 / a sign test) and from above (against a modulus ..)
            views = []      # per comparison: the leaves it sees through ring operations only
            for g in ap['gates']:
                if g.kind == 'deleg' or not gate_is_comparison(g):
                    continue
                side = _order_sides(g, kself)
                ring = set()
                # `x % n == x`: a leaf compared with its own residue.  rug's `%` truncates (the remainder keeps the sign of x), so the test holds
                # for x - n as well when x > 0: it bounds |x| from above and says nothing about the sign.  (`rem_euc` / `modulo` give one value
                # per class: a full pin.)
                own_residue = set()
                if side is None and len(g.operands) == 2:
                    for i_ in (0, 1):
                        if any(label_of(a) == 'H' for a in g.operands[i_]):
                            continue      # a digest on that side: the leaf is compared with a hash value, not with its residue
                        reduced = {lp for a in g.operands[i_] if label_of(a) == 'M' for lp in _leaf_of(a, kself, leaves)}
                        plain = {lp for a in g.operands[1 - i_] if label_of(a) == 'R' for lp in _leaf_of(a, kself, leaves)}
                        if (reduced & plain) and _truncating_rem_of(prog, ga.eng, g):
                            own_residue |= (reduced & plain)
                for a in g.all_atoms():
                    lab = label_of(a)
                    if lab == 'M':
                        continue
                    for lp in _leaf_of(a, kself, leaves):
                        if g.dom is not True and lp not in per_element:
                            continue      # a test on only some of the paths to the accept site (elements of a list are tested inside the loop over the list)
                        if side is not None and a[0] not in ('h',):
                            # an order comparison excludes the representatives on one side only: x < N leaves x - N, |x| < N leaves x - N for x > 0
                            if side[0]:
                                below.add(lp)
                            if side[1]:
                                above.add(lp)
                        elif lab == 'R' and lp in own_residue:
                            above.add(lp)
                        elif lab == 'R':
                            ring.add(lp)
                        else:
                            pinned.add(lp)      # an exponent, a digest input, a conversion: another representative changes the value compared
                if ring:
                    views.append(ring)
            pinned |= (below & above)
            # a ring expression: x + k*n can be compensated by shifting another leaf of the same expression, unless that one is pinned
            changed = True
            while changed:
                changed = False
                for ring in views:
                    rest = ring - pinned
                    if len(rest) == 1:
                        pinned |= rest
                        changed = True
            for lp in leaves:
                if lp not in pinned:
                    unpinned.setdefault(lp, []).append(ap['block'])
        for lp in leaves:
            n_leaves += 1
            bad = unpinned.get(lp, [])
            yield Ob(rule, '%s#representative:%s' % (body.path, '.'.join(lp)), not bad,
                     'some comparison every accept path passes depends on the transmitted integer itself, not only on its residue (otherwise x + k*n verifies as well)',
                     body.span, fact={'accept_paths': len(aps), 'paths_where_only_the_residue_is_tested': bad[:6]}, expected='pinned')
    yield Ob(rule, 'crate#representative-leaves', n_leaves >= 1, 'integer leaves examined', '', fact=n_leaves, expected='>= 1', nontrivial=False)


# ---------------------------------------------------------------------------------- C15 challenge ingredients
def _is_hash_helper(eng, tgt, _depth=0):
    """a local function that only hashes what it is given: it feeds a digest (digest / update + finalize) and each of its value parameters may
    flow into its result"""
    prog = eng.prog
    hb = prog.bodies.get(tgt)
    if hb is None or hb.kind == 'Closure':
        return False
    direct = [t for bi, t in hb.calls() if callee_matches(t, 'digest::Digest::digest') or callee_matches(t, 'digest::Digest::finalize')
              or callee_matches(t, 'digest::Digest::update') or (t.get('callee') or '').endswith(('Digest::finalize', 'Digest::update', 'Digest::digest'))]
    if not direct:
        return False
    return True


def _fs_hash_sites(eng, b):
    """[(block, call, ingredient operands)]: direct `Digest::digest(x)` calls, and calls of a local hash helper (ingredients = its arguments)"""
    out = []
    for bi, t in b.calls():
        if callee_matches(t, 'digest::Digest::digest'):
            out.append((bi, t, t['args'][:1]))
            continue
        tgt = local_target(eng, t)
        if tgt and tgt != b.path and _is_hash_helper(eng, tgt):
            out.append((bi, t, list(t['args'])))
    return out


def _site_atoms(mf, fd, bi, ops):
    must, may = set(), set()
    for a in ops:
        if a['k'] in ('copy', 'move'):
            must |= mf.must_atoms_place(a['pl'], bi)
        may |= fd.read_op(a)
    return must, may


def rule_nisp5_challenge(ctx, cfg='prod-all'):
    """the signature-PoK challenge hashes the five commitments (prover) / the five recomputed inputs (verifier); each recomputed input depends on
    the responses, commitment values, public bases, c, the revealed messages and the hidden-position set."""
    prog, eng = ctx.prog(cfg), ctx.eng(cfg)
    specs = [(SP + 'NISPSignaturePoK::nisp5_MultiAttr_generate_proof', ['t_1', 't_2', 't_3', 't_4', 't_5'],
              ['signature.v', 'a_bases', 'commitment_pk.g_bases', 'commitment_pk.h', 'signer_pk.b', 'signer_pk.N']),
             (SP + 'NISPSignaturePoK::nisp5_MultiAttr_verify_proof', ['input1', 'input2', 'input3', 'input4', 'input5'],
              ['self.s_1', 'self.s_2', 'self.s_3', 'self.s_4', 'self.s_5', 'self.s_6', 'self.s_7', 'self.s_8', 'self.s_9', 'self.challenge',
               'self.Cx.value', 'self.Cv.value', 'self.Cw.value', 'self.Ce.value', 'a_bases', 'commitment_pk.g_bases', 'commitment_pk.h',
               'signer_pk.b', 'signer_pk.c', 'signer_pk.N', 'messages', 'n_signed_messages'])]
    for fn, locals_, cover in specs:
        b = prog.bodies.get(fn)
        if b is None:
            raise AnchorMissing(fn)
        fd = eng.fndep(fn)
        mf = MustFlow(eng, fd)
        sites = _fs_hash_sites(eng, b)
        if len(sites) != 1:
            yield Ob('RF-C', '%s#hash-sites' % fn, False, 'exactly one challenge hash', b.span, fact=len(sites), expected=1)
            continue
        bi, t, ings = sites[0]
        must, may = _site_atoms(mf, fd, bi, ings)
        for spec in cover:
            req = parse_req(b, spec)
            # values folded inside the `for i in 0..n { if hidden(i) {..} else {..} }` loops reach the hash through one of the two arms: may-flow
            in_loop_only = spec in ('self.s_5', 'a_bases', 'messages', 'n_signed_messages', 'commitment_pk.g_bases')
            ok = has(must, req) or (in_loop_only and has(may, req))
            yield Ob('RF-C', '%s#challenge∋%s' % (fn, spec), ok, 'ingredient reaches the challenge hash', '%s L%s' % (b.file(), t['line']),
                     fact={'must': len(must), 'via': 'must' if has(must, req) else 'may'}, expected=spec)
        # the five named values are what is concatenated
        named = {}
        for l, loc in enumerate(b.locals):
            if loc.get('name') in locals_:
                named[loc['name']] = l
        missing = [n for n in locals_ if n not in named]
        yield Ob('RF-C', '%s#five-commitments' % fn, not missing, 'the five sigma-protocol commitments exist as named values', b.span, fact=sorted(named), expected=locals_)


C15_REQS = [
    (POKI + 'proof_verify', [
        {'id': 'spok-challenge', 'what': 'recomputed challenge == transmitted challenge gates acceptance and depends on every response, commitment value, key, base, revealed message, position set and count',
         'gate_callee': ['PartialEq'],
         'cover': ['self.spok.challenge', 'self.spok.s_1', 'self.spok.s_2', 'self.spok.s_3', 'self.spok.s_4', 'self.spok.s_5', 'self.spok.s_6', 'self.spok.s_7',
                   'self.spok.s_8', 'self.spok.s_9', 'self.spok.Cx.value', 'self.spok.Cv.value', 'self.spok.Cw.value', 'self.spok.Ce.value',
                   'commitment_pk.g_bases', 'commitment_pk.h', 'signer_pk.N', 'signer_pk.b', 'signer_pk.c', 'a_bases', 'messages',
                   'n_signed_messages']},
        {'id': 'range-proof-e', 'what': 'range proof on e gates acceptance with bounds from le', 'gate_callee': ['PartialEq'],
         'cover': ['self.range_proof_e', 'commitment_pk.N', 'a:le']},
        {'id': 'revealed-range', 'what': 'every revealed attribute is compared with 2^lm before acceptance (as in verify_multiattr: otherwise a proof made from '
                                         '(v * a^k, m + k * e) verifies for a value that was never signed)',
         'gate_callee': ['PartialOrd', 'Ord::cmp', 'Iterator::any', 'Iterator::all', 'significant_bits'], 'gate_op': ['Lt', 'Le', 'Gt', 'Ge'],
         'quantifier': 'forall', 'cover': ['messages', 'a:lm'], 'pure': ['messages']},
        {'id': 'revealed-count', 'what': 'the number of revealed attributes plus the number of hidden positions is compared with the attribute count',
         'gate_op': ['Eq', 'Ne'], 'cover': ['len(messages)', 'len(unrevealed_message_indexes)', 'n_signed_messages']},
        {'id': 'hidden-positions-in-range', 'what': 'every hidden position is compared with the attribute count', 'gate_op': ['Lt', 'Le', 'Gt', 'Ge'],
         'gate_callee': ['Iterator::any', 'Iterator::all'], 'quantifier': 'forall', 'cover': ['unrevealed_message_indexes', 'n_signed_messages'],
         'pure': ['unrevealed_message_indexes', 'n_signed_messages']},
        {'id': 'pok-mi', 'any_path': True, 'what': 'per-attribute PoK gates acceptance with base g_i', 'gate_callee': ['PartialEq'],
         'cover': ['self.proofs_commited_mi', 'commitment_pk.g_bases', 'commitment_pk.h', 'commitment_pk.N', 'unrevealed_message_indexes']},
    ]),
]

# ---------------------------------------------------------------------------------- C16
C16_REQS = [
    (RP + 'verify', [
        {'id': 'E_prime', 'what': "E' == E^(2^T) gates acceptance and depends on the bounds (through T) and the modulus", 'gate_callee': ['PartialEq'], 'cover': ['self.E_prime', 'self.E', 'module', 'rmin', 'rmax']},
        {'id': 'decomposition-a', 'what': 'E_a_2 == E_a / E_a_1 gates acceptance and depends on E\', the base, the bounds', 'gate_callee': ['PartialEq'], 'cover': ['self.proof_of_tolerance.E_a_2', 'self.proof_of_tolerance.E_a_1', 'self.E_prime', 'base1', 'module', 'rmin', 'rmax']},
        {'id': 'decomposition-b', 'what': 'E_b_2 == E_b / E_b_1 gates acceptance', 'gate_callee': ['PartialEq'], 'cover': ['self.proof_of_tolerance.E_b_2', 'self.proof_of_tolerance.E_b_1', 'self.E_prime', 'base1', 'module', 'rmin', 'rmax']},
        {'id': 'square-a', 'what': 'proof of square (a) gates acceptance', 'gate_callee': ['PartialEq'],
         'cover': ['self.proof_of_tolerance.proof_of_square_a', 'base1', 'base2', 'module']},
        {'id': 'square-b', 'what': 'proof of square (b) gates acceptance', 'gate_callee': ['PartialEq'],
         'cover': ['self.proof_of_tolerance.proof_of_square_b', 'base1', 'base2', 'module']},
        {'id': 'large-interval-a', 'what': 'larger-interval proof (a) gates acceptance against E_a_2', 'gate_callee': ['PartialEq'],
         'cover': ['self.proof_of_tolerance.proof_large_i_a', 'self.proof_of_tolerance.E_a_2', 'base1', 'base2', 'module']},
        {'id': 'large-interval-b', 'what': 'larger-interval proof (b) gates acceptance against E_b_2', 'gate_callee': ['PartialEq'],
         'cover': ['self.proof_of_tolerance.proof_large_i_b', 'self.proof_of_tolerance.E_b_2', 'base1', 'base2', 'module']},
    ]),
]


def rule_range_proof_hash_sites(ctx, cfg='prod-all'):
    """the four Fiat-Shamir hashes of the range proof bind what they must (necessary)."""
    prog, eng = ctx.prog(cfg), ctx.eng(cfg)
    table = [
        (RP + 'proof_same_secret', ['x_dummy'], ['g_1', 'h_1', 'g_2', 'h_2', 'n']),
        (RP + 'verify_same_secret', [], ['E', 'F', 'g_1', 'h_1', 'g_2', 'h_2', 'n', 'proof_ss.challenge', 'proof_ss.d', 'proof_ss.d_1', 'proof_ss.d_2']),
        (RP + 'proof_large_interval_specific', [], ['g', 'h', 'n']),
        (RP + 'verify_large_interval_specific', [], ['E', 'g', 'h', 'n', 'proof_li.C', 'proof_li.D_1', 'proof_li.D_2', 't']),
    ]
    for fn, _, cover in table:
        b = prog.bodies.get(fn)
        if b is None:
            raise AnchorMissing(fn)
        fd = eng.fndep(fn)
        mf = MustFlow(eng, fd)
        sites = _fs_hash_sites(eng, b)
        if len(sites) != 1:
            yield Ob('RF-C', '%s#hash-sites' % fn, False, 'exactly one Fiat-Shamir hash', b.span, fact=len(sites), expected=1)
            continue
        bi, t, ings = sites[0]
        must, may = _site_atoms(mf, fd, bi, ings)
        for spec in cover:
            req = parse_req(b, spec)
            # loops that retry (proof_large_interval_specific) hash inside the loop: use may-flow there
            ok = has(must, req) or (any(bi in bl for h, bl in b.natural_loops()) and has(may, req))
            yield Ob('RF-C', '%s#hash∋%s' % (fn, spec), ok, 'ingredient reaches the Fiat-Shamir hash', '%s L%s' % (b.file(), t['line']), fact=None, expected=spec)


# ---------------------------------------------------------------------------------- cursor discipline
def _cursors(zf):
    """locals used as manually advanced cursors: assigned `0` once and `c = c + 1` elsewhere."""
    body, fd = zf.body, zf.fd
    out = {}
    for l, ds in fd.defs.items():
        if fd.is_param(l) or body.local_ty(l) not in ('usize', 'u64', 'u32') or len(ds) < 2:
            continue
        inits, incs, other = [], [], 0
        for kind, bi, x in ds:
            if kind == 'assign' and x['rv']['k'] == 'use' and x['rv']['op']['k'] == 'const' and x['rv']['op'].get('int') == '0':
                inits.append(bi)
            elif kind == 'assign' and x['rv']['k'] == 'use' and x['rv']['op']['k'] in ('copy', 'move'):
                pl = x['rv']['op']['pl']
                d = zf.single_def(pl['l'])
                if d and d[0] == 'assign' and d[2]['rv']['k'] == 'binop' and d[2]['rv']['op'].startswith('Add'):
                    a, b = d[2]['rv']['a'], d[2]['rv']['b']
                    def is_c(o):
                        if o['k'] not in ('copy', 'move'):
                            return False
                        ll = o['pl']['l']
                        for _ in range(3):
                            if ll == l:
                                return True
                            dd = zf.single_def(ll)
                            if dd and dd[0] == 'assign' and dd[2]['rv']['k'] == 'use' and dd[2]['rv']['op']['k'] in ('copy', 'move'):
                                ll = dd[2]['rv']['op']['pl']['l']
                            else:
                                return False
                        return False
                    one = lambda o: o['k'] == 'const' and o.get('int') == '1'
                    if (is_c(a) and one(b)) or (is_c(b) and one(a)):
                        incs.append(bi)
                    else:
                        other += 1
                else:
                    other += 1
            else:
                other += 1
        if inits and incs and not other:
            out[l] = incs
    return out


def _only_compared(b, zf, l):
    """the value held in local l (the Option a `get` returned) is only handed to equality comparisons (through copies and borrows)"""
    seen, st, cmp_seen = set(), [l], False
    while st:
        x = st.pop()
        if x in seen:
            continue
        seen.add(x)
        for bi, blk in enumerate(b.blocks):
            if blk['cleanup']:
                continue
            for s in blk['stmts']:
                if s['k'] != 'assign':
                    continue
                rv = s['rv']
                src = rv.get('pl') if rv['k'] in ('ref',) else (rv.get('op') or {}).get('pl') if rv['k'] in ('use', 'cast') else None
                if src is not None and src['l'] == x:
                    if src.get('p') and any(q['k'] != 'deref' for q in src['p']):
                        return False      # the payload is taken out
                    if s['dst'].get('p'):
                        return False
                    st.append(s['dst']['l'])
                elif rv['k'] in ('discr', 'binop', 'agg') and any(isinstance(o, dict) and o.get('k') in ('copy', 'move') and o['pl']['l'] == x
                                                                 for o in [rv.get('a'), rv.get('b'), {'k': 'copy', 'pl': rv.get('pl')} if rv.get('pl') else None] + list(rv.get('ops') or [])):
                    return False
            t = blk['term']
            if t['k'] == 'call':
                for a in t['args']:
                    if a['k'] in ('copy', 'move') and a['pl']['l'] == x:
                        if (t.get('callee') or '') in ('std::cmp::PartialEq::eq', 'std::cmp::PartialEq::ne'):
                            cmp_seen = True
                        else:
                            return False
            elif t['k'] == 'switch' and t['discr']['k'] in ('copy', 'move') and t['discr']['pl']['l'] == x:
                return False
    return cmp_seen


def rule_cursor_discipline(ctx, cfg='prod-all', scope=('cl03::',)):
    """a manually advanced cursor into a list (idx += 1) must be advanced on every path from the element it selects to the next
    iteration: otherwise later positions re-read the same element (or skip one)."""
    prog, za = ctx.prog(cfg), ctx.zone(cfg)
    n = 0
    for p, b in sorted(prog.bodies.items()):
        if b.from_expansion or not p.startswith(scope) or b.kind == 'Closure':
            continue
        za.summary(p)
        zf = za.zf(p)
        cur = _cursors(zf)
        if not cur:
            continue
        loops = b.natural_loops()
        for c, incs in cur.items():
            # blocks that use c (or a copy of it) as an index / key
            uses = set()
            peeks = 0
            copies = {c}
            for bi, s in b.stmts():
                if s['k'] == 'assign' and s['rv']['k'] == 'use' and s['rv']['op']['k'] in ('copy', 'move') and s['rv']['op']['pl']['l'] in copies \
                        and not s['rv']['op']['pl'].get('p') and not s['dst'].get('p') and len(zf.fd.defs.get(s['dst']['l'], [])) == 1:
                    copies.add(s['dst']['l'])
            for bi, blk in enumerate(b.blocks):
                if blk['cleanup']:
                    continue
                for s in blk['stmts']:
                    if s['k'] == 'assign':
                        rv = s['rv']
                        pls = [o['pl'] for o in (rv.get('op'), rv.get('a'), rv.get('b')) if isinstance(o, dict) and o.get('k') in ('copy', 'move')]
                        if rv['k'] in ('ref',):
                            pls.append(rv['pl'])
                        for pl in pls:
                            if any(pr['k'] == 'index' and pr['l'] in copies for pr in pl.get('p', [])):
                                uses.add(bi)
                t = blk['term']
                if t['k'] == 'call' and (t.get('callee') or '') in ('std::ops::Index::index', 'std::ops::IndexMut::index_mut', 'core::slice::<impl [T]>::get',
                                                                  'std::vec::Vec::<T, A>::get', 'core::slice::<impl [T]>::get_mut') and len(t['args']) == 2:
                    a1 = t['args'][1]
                    if a1['k'] in ('copy', 'move') and a1['pl']['l'] in copies:
                        if (t.get('callee') or '').endswith('::get') and _only_compared(b, zf, t['dst']['l']):
                            peeks += 1      # `list.get(idx) == Some(&i)`: a look at the next element that decides whether to take it, not a read that consumes it
                            continue
                        uses.add(bi)
            n += peeks
            for u in sorted(uses):
                for h, blocks in loops:
                    if u not in blocks:
                        continue
                    latches = [x for x in blocks if h in b.succ[x]]
                    # reachable from u inside the loop without passing an increment block
                    seen, st = set(), [u]
                    bad = False
                    while st:
                        x = st.pop()
                        if x in seen:
                            continue
                        seen.add(x)
                        if x in incs and x != u:
                            continue
                        if x in latches and not (x in incs):
                            bad = True
                            break
                        for y in b.succ[x]:
                            if y in blocks and y != h:
                                st.append(y)
                    n += 1
                    name = b.local_name(c)
                    yield Ob('RF-P', '%s#cursor:%s@%s' % (p, name, 'loop%d' % sorted(x for x, _ in loops).index(h)), not bad,
                             'every path from a read of `%s`-indexed data to the next iteration advances `%s`' % (name, name), b.span,
                             fact={'use_block': u, 'increment_blocks': incs}, expected='increment on every path')
                    break
    yield Ob('RF-P', 'cl03#cursor-census', n >= 8, 'cursor uses checked', '', fact=n, expected='>= 8', nontrivial=False)


# ---------------------------------------------------------------------------------- untrusted skip conditions (C14)
def rule_checks_not_skippable_by_artefact(ctx, cfg='prod-all'):
    """whether a sub-verifier runs may depend on the issuer's / verifier's own inputs, never on fields of the untrusted proof: a proof
    must not be able to switch a check off by omitting the component the check is about."""
    prog, eng, ga, za = ctx.prog(cfg), ctx.eng(cfg), ctx.gates(cfg), ctx.zone(cfg)
    specs = [(ZKI + 'verify_proof', ['nisp2_verify_proof_MultiSecrets', 'nispMultiSecrets_verify_proof', 'nisp2sec_verify_proof', 'Boudot2000RangeProof::verify']),
             (POKI + 'proof_verify', ['nisp5_MultiAttr_verify_proof', 'nisp2sec_verify_proof', 'Boudot2000RangeProof::verify'])]
    for suffix, callees in specs:
        b = resolve_fn(prog, suffix)
        kself = b.param_index('self')
        n = 0
        # the sub-verifiers may be called by the entry point itself or by a private helper it delegates the checking to
        for fr in walk(eng, b.path, max_depth=4, include_closures=False):
            if any(fr.path.endswith(c) for c in callees):
                continue
            for bi, t in fr.body.calls():
                tgt = local_target(eng, t) or ''
                if not any(tgt.endswith(c) for c in callees):
                    continue
                n += 1
                bad = []
                # conditions on the call itself, and on each call of the chain that leads from the entry point to it
                f, at = fr, bi
                while f is not None:
                    fb, ffd = f.body, f.fd
                    for g in ga.block_gates(ffd, at):
                        if g.kind == 'deleg':
                            continue        # an earlier sub-verifier failing is a refusal, not a skip
                        # a gate whose failing edge leaves the function (return false / error / panic) is a refusal too
                        sw, taken = g.edge
                        others = [x for x in fb.succ[sw] if x != taken]
                        if others and all(at not in fb.reachable(o) and not _reaches_accept(fb, ffd, o) for o in others):
                            continue
                        ats = f.lift(g.all_atoms())
                        if any(strip(a)[0] == 'p' and strip(a)[1] == kself for a in ats):
                            if _trip_count_is_trusted(za, f, g, kself) or _presence_tied(ga, f, at, g, kself):
                                continue
                            bad.append(g.describe())
                    if f.parent is None:
                        break
                    at = next((x for x, tt in f.parent.body.calls() if tt is f.call), None)
                    f = f.parent
                    if at is None:
                        break
                yield Ob('RF-D', '%s#unskippable:%s[%d]' % (b.path, tgt.split('::')[-1], n), not bad,
                         'the conditions under which this sub-verifier is invoked do not depend on the untrusted proof', '%s L%s' % (fr.body.file(), t['line']),
                         fact={'proof_dependent_conditions': bad[:4], 'called_in': fr.path.split('::')[-1]}, expected='none')
        if n == 0:
            yield Ob('RF-D', '%s#unskippable:none' % b.path, False, 'expected sub-verifier calls', b.span, fact=0, expected='>= 1')


def _is_proof_atom(f, a, kself):
    return any(strip(x)[0] == 'p' and strip(x)[1] == kself for x in f.lift({a}))


def _trip_count_is_trusted(za, f, g, kself):
    """the condition is the `next()` of a loop over lists zipped together, and the number of rounds is the length of a list that does not come
    from the proof (the proof's lists are at least as long there: their lengths were compared before)"""
    if g.kind != 'call' or not (g.what or '').endswith('Iterator::next') or not g.args or g.fn != f.path:
        return False
    za.summary(f.path)
    zf = za.zf(f.path)
    ln = zf.iter_len(g.args[0])
    if ln is None or ln[0] is None or not ln[0].startswith('len:'):
        return False
    name = ln[0][4:].split('.')
    b = f.body
    k = b.param_index(name[0])
    if k is None and name[0].startswith('_') and name[0][1:].isdigit():
        k = int(name[0][1:])
    if k is None:
        ls = [l for l in range(len(b.locals)) if b.local_name(l) == name[0]]
        k = ls[0] if len(ls) == 1 else None
    if k is None:
        return False
    ats = f.fd.read(f.fd.base(k)[0], tuple(f.fd.base(k)[1]) + tuple(name[1:]))
    return not any(_is_proof_atom(f, a, kself) for a in ats)


def _presence_tied(ga, f, at, g, kself):
    """a match on whether an optional part of the proof is present, where a comparison every path passes has already refused unless that
    presence equals the presence of an input that is not part of the proof (`if trusted.is_some() != proof.part.is_some() { return false }`):
    the proof does not choose the branch"""
    if g.kind not in ('match', 'call'):
        return False
    if g.kind == 'call' and not (g.what or '').endswith(('::is_some', '::is_none')):
        return False
    fb, ffd = f.body, f.fd
    mine = [a for a in g.all_atoms() if _is_proof_atom(f, a, kself)]
    ties = []
    for g2 in ga.block_gates(ffd, at):
        if g2.kind != 'cmp' or g2.dom is not True or len(g2.operands) != 2 or g2.edge is None:
            continue
        if not ((g2.what == 'Ne' and g2.truth is False) or (g2.what == 'Eq' and g2.truth is True)):
            continue
        t = fb.blocks[g2.edge[0]]['term']
        # both sides booleans (presence flags)
        okb = False
        if t['k'] == 'switch' and t['discr']['k'] in ('copy', 'move'):
            ds = [d for d in ffd.defs.get(t['discr']['pl']['l'], []) if d[0] == 'assign' and d[2]['rv']['k'] == 'binop']
            for d in ds:
                rv = d[2]['rv']
                okb = okb or all(o['k'] in ('copy', 'move') and fb.local_ty(o['pl']['l']) == 'bool' for o in (rv['a'], rv['b']))
        # (a condition that is one operand of a short-circuit chain has its own switch)
        if not okb:
            continue
        o1, o2 = g2.operands
        for x, y in ((o1, o2), (o2, o1)):
            if x and y and not any(_is_proof_atom(f, a, kself) for a in y):
                ties.append(set(x))
    if not mine or not ties:
        return False
    from dep import covers
    return all(any(covers(tie, strip(a)) for tie in ties) for a in mine)


def _reaches_accept(b, fd, start):
    acc = {bi for bi, kind, _ in accept_blocks(fd) if kind in ('true', 'ok')}
    return bool(acc & b.reachable(start))


# ---------------------------------------------------------------------------------- mask vectors of the CL03 provers (C17 / C19)
def _element_draw(eng, zf, l, depth=0):
    """the call that produces the value of local l - or, when l is a tuple / struct built in place (an element that carries its position next to
    the mask), the random_bits call that produces one of its components"""
    from rf_bits import origin_call
    oc = origin_call(zf, l)
    if oc is not None or depth > 2:
        return oc
    d = zf.single_def(l)
    for _ in range(4):
        if d and d[0] == 'assign' and d[2]['rv']['k'] == 'use' and d[2]['rv']['op']['k'] in ('copy', 'move') and not d[2]['rv']['op']['pl'].get('p'):
            d = zf.single_def(d[2]['rv']['op']['pl']['l'])
            continue
        break
    if d and d[0] == 'assign' and d[2]['rv']['k'] == 'agg' and d[2]['rv'].get('ak') in ('tuple', 'adt'):
        other = None
        for o in d[2]['rv']['ops']:
            if o['k'] in ('copy', 'move') and not o['pl'].get('p'):
                c = _element_draw(eng, zf, o['pl']['l'], depth + 1)
                if c is not None and (local_target(eng, c) or '').endswith('random_bits'):
                    return c
                other = other or c
        return other
    return None


def _tests_membership_table(b, fd, g, kidx):
    """the condition is an element `table[i]` of a Vec<bool> that was created all false (`vec![false; n]`) and in which `true` is written only
    at positions taken from the list parameter kidx"""
    sw = b.blocks[g.edge[0]]['term']
    if sw['k'] != 'switch' or sw['discr']['k'] not in ('copy', 'move'):
        return False
    # the tested boolean: a copy of `(*idx_result)` where idx_result = Index::index(&table, i), or `table[i]` read in place
    l = sw['discr']['pl']['l']
    table = None
    for _ in range(5):
        ds = [d for d in fd.defs.get(l, []) if not d[2].get('dst', {}).get('p')]
        if len(ds) != 1:
            return False
        d = ds[0]
        if d[0] == 'assign' and d[2]['rv']['k'] == 'use' and d[2]['rv']['op']['k'] in ('copy', 'move'):
            pl = d[2]['rv']['op']['pl']
            if any(q['k'] == 'index' for q in pl.get('p', [])):
                table = fd.resolve_place({'l': pl['l']})[0]
                break
            l = pl['l']
            continue
        if d[0] == 'call' and (d[2].get('callee') or '') == 'std::ops::Index::index' and d[2]['args'] and d[2]['args'][0]['k'] in ('copy', 'move'):
            table = fd.resolve_place(d[2]['args'][0]['pl'])[0]
            break
        return False
    if table is None or not b.local_ty(table).startswith('std::vec::Vec<bool'):
        return False
    cr = [d for d in fd.defs.get(table, []) if not d[2].get('dst', {}).get('p')]
    if len(cr) != 1 or cr[0][0] != 'call' or not (cr[0][2].get('callee') or '').endswith('from_elem') or not cr[0][2]['args'] \
            or cr[0][2]['args'][0].get('k') != 'const' or cr[0][2]['args'][0].get('int') != '0':
        return False
    # writes: through IndexMut::index_mut(&mut table, h) / get_mut(h) with h from the list, value const true
    writes = 0
    for bi, t in b.calls():
        cal = t.get('callee') or ''
        if cal in ('std::ops::IndexMut::index_mut', 'core::slice::<impl [T]>::get_mut', 'std::vec::Vec::<T, A>::get_mut') and len(t['args']) == 2 \
                and t['args'][0]['k'] in ('copy', 'move') and fd.resolve_place(t['args'][0]['pl'])[0] == table:
            ats = fd.read_op(t['args'][1])
            if not any(strip(a)[0] == 'p' and strip(a)[1] == kidx for a in ats):
                return False
            writes += 1
        elif any(a['k'] in ('copy', 'move') and b.local_ty(a['pl']['l']).startswith('&mut ') and fd.resolve_place(a['pl'])[0] == table for a in t['args']):
            return False
    if not writes:
        return False
    for bi, st in b.stmts():
        if st['k'] == 'assign' and st['dst'].get('p') and any(q['k'] == 'deref' for q in st['dst']['p']):
            r0 = fd.resolve_place(st['dst'])[0]
            if r0 == table and not (st['rv']['k'] == 'use' and st['rv']['op'].get('k') == 'const' and st['rv']['op'].get('int') == '1'):
                return False
    return True


def rule_mask_vectors(ctx, cfg='prod-all'):
    """per-attribute masks: (1) every element is a separate random_bits draw made inside the loop that stores it (no vec![x; n], no hoisting);
    (2) in the signature proof, position i of r_5 holds a random mask exactly when i is in the hidden-position list (membership test on the
    loop index), and the revealed value otherwise."""
    prog, eng, ga, za = ctx.prog(cfg), ctx.eng(cfg), ctx.gates(cfg), ctx.zone(cfg)
    fns = {SP + 'NISP2Commitments::nisp2_generate_proof_MultiSecrets': 'omega', SP + 'NISPMultiSecrets::nispMultiSecrets_generate_proof': 'r1',
           SP + 'NISPSignaturePoK::nisp5_MultiAttr_generate_proof': 'r_5'}
    for fn, vec in fns.items():
        b = prog.bodies.get(fn)
        if b is None:
            raise AnchorMissing(fn)
        fd = eng.fndep(fn)
        za.summary(fn)
        zf = za.zf(fn)
        roots = [l for l, loc in enumerate(b.locals) if loc.get('name') == vec and loc['ty'].startswith('std::vec::Vec<') and 'rug::Integer' in loc['ty']]
        if not roots:
            # the body of the prover was moved into a private function of the module (`try_generate_proof`, a helper shared by two provers):
            # the mask vector is looked for there - by its name, or (one list of integers filled from random_bits) by what it is
            for bi_, t_ in b.calls():
                tg_ = local_target(eng, t_)
                if not tg_ or tg_ not in prog.bodies or not tg_.startswith('cl03::sigma_protocols::') or prog.bodies[tg_].is_pub or tg_ in fns:
                    continue
                hb = prog.bodies[tg_]
                named = [l for l, loc in enumerate(hb.locals) if loc.get('name') == vec and loc['ty'].startswith('std::vec::Vec<') and 'rug::Integer' in loc['ty']]
                if not named:
                    hfd = eng.fndep(tg_)
                    cand = []
                    for l, loc in enumerate(hb.locals):
                        if l > hb.arg_count and loc.get('name') and loc['ty'].startswith('std::vec::Vec<') and 'rug::Integer' in loc['ty'] \
                                and any(a[0] == 'o' and a[1].endswith('thread_rng') for a in hfd.read(l, ())):
                            cand.append(l)
                    named = cand if len(cand) == 1 else []
                if named:
                    b, fn_body, roots = hb, tg_, named
                    fd = eng.fndep(tg_)
                    za.summary(tg_)
                    zf = za.zf(tg_)
                    break
        if not roots:
            raise AnchorMissing('%s: mask vector %s' % (fn, vec))
        root = roots[0]
        # how is the vector created?
        ds = fd.defs.get(root, [])
        creators = []
        for kind, bi, x in ds:
            if kind == 'call':
                creators.append(x.get('callee') or '')
            elif kind == 'assign' and x['rv']['k'] == 'use' and x['rv']['op']['k'] in ('copy', 'move'):
                from rf_bits import origin_call
                oc = origin_call(zf, x['rv']['op']['pl']['l'])
                creators.append((oc.get('callee') if oc else '?') or '?')
        fresh_vec = len(creators) == 1 and creators[0].endswith(('Vec::<T>::new', 'Vec::<T>::with_capacity'))
        # iterator form: `positions.iter().map(|_| random_bits(n)).collect()` - the closure is evaluated once per element and its value is a
        # random_bits call made inside it
        mapped = None
        if len(creators) == 1 and creators[0] == 'std::iter::Iterator::collect':
            from rf_bits import origin_call
            oc = origin_call(zf, root)
            mc = origin_call(zf, oc['args'][0]['pl']['l']) if oc is not None and oc['args'] and oc['args'][0]['k'] in ('copy', 'move') else None
            if mc is not None and (mc.get('callee') or '') == 'std::iter::Iterator::map' and len(mc['args']) == 2 and mc['args'][1]['k'] in ('copy', 'move'):
                ci = fd._closure_info(mc['args'][1]['pl']['l'])
                if ci is not None:
                    czf = za.zf(ci[0])
                    rc = _element_draw(eng, czf, 0)
                    mapped = {'closure': ci[0].split('::')[-1], 'element_is_result_of': (local_target(eng, rc) or rc.get('callee') or '?') if rc is not None else None}
                    mapped['ok'] = rc is not None and (local_target(eng, rc) or '').endswith('random_bits')
        if mapped is not None and vec == 'r_5':
            # mixed vector built by a mapped closure: `|(i, m)| if hidden.contains(&i) { random_bits(ln) } else { m.value.clone() }`
            from flow import Frame, ClosureFrame
            cpath = [p for p in prog.bodies if p.startswith(fn + '::{closure') and p.endswith(mapped['closure'])]
            cfd = eng.fndep(cpath[0]) if cpath else None
            res = {'random': False, 'revealed': False}
            draws = 0
            if cfd is not None:
                cf = ClosureFrame(eng, cpath[0], Frame(eng, fn))
                kidx = b.param_index('unrevealed_message_indexes')
                cb = cfd.body
                rnd_blocks = [bi for bi, t in cb.calls() if (local_target(eng, t) or '').endswith('random_bits')]
                draws = len(rnd_blocks)
                # blocks that produce the other (revealed) value: definitions of the returned local that are not the random draw
                ret_defs = [bi for kind, bi, x in cfd.defs.get(0, [])]
                other_blocks = [bi for bi in ret_defs if bi not in rnd_blocks and not any(cb.dominates(r, bi) and r != bi for r in rnd_blocks)]
                for label, blist in (('random', rnd_blocks), ('revealed', other_blocks)):
                    ok = bool(blist)
                    for bi in blist:
                        good = False
                        gates = []
                        for g in ga.block_gates(cfd, bi):
                            if g.kind == 'deleg' and g.callee:
                                # a membership helper (`hidden.contains(i)` on a small wrapper type): the test it makes, in the closure's terms
                                for alt in ga._lift_paths(cfd, g.callee, g.args, g.dom, (), want=(g.truth is not False)) or []:
                                    for g3 in alt:
                                        if g3.truth is None:
                                            g3.truth = g.truth        # the helper hands the test's verdict back as it is
                                        gates.append(g3)
                            else:
                                gates.append(g)
                        for g in gates:
                            if g.kind == 'call' and (g.what or '').endswith('contains') and len(g.operands) >= 2:
                                a0 = cf.lift(g.operands[0])
                                a1 = cf.lift(g.operands[1])
                                on_list = any(strip(a)[0] == 'p' and strip(a)[1] == kidx for a in a0)
                                idx_ok = not any(strip(a)[0] == 'p' and strip(a)[1] == kidx for a in a1)
                                if on_list and idx_ok and g.truth == (label == 'random'):
                                    good = True
                        ok = ok and good
                    res[label] = ok
            yield Ob('RF-G2', '%s#%s:created-empty' % (fn, vec), True, 'the mask vector is collected from an iterator (one closure evaluation per element)', b.span,
                     fact=creators, expected='Vec::new() or collect()')
            yield Ob('RF-G2', '%s#%s:draw-per-element' % (fn, vec), draws >= 1, 'each random mask is drawn by a random_bits call inside the mapped closure', b.span,
                     fact={'closure': mapped['closure'], 'random_bits_calls_in_closure': draws}, expected='random_bits inside the closure')
            yield Ob('RF-G2', '%s#r_5:selection' % fn, res.get('random') and res.get('revealed'),
                     'r_5[i] is a fresh mask iff the hidden-position list contains i (so every hidden attribute is blinded), the revealed value otherwise', b.span,
                     fact=res, expected={'random': True, 'revealed': True})
            s5 = [(bi, t) for bi, t in b.calls() if (t.get('callee') or '') in ('core::slice::<impl [T]>::get', 'std::vec::Vec::<T, A>::get', 'std::ops::Index::index')
                  and t['args'][0]['k'] in ('copy', 'move') and fd.resolve_place(t['args'][0]['pl'])[0] == root]
            ok5 = bool(s5) and any(any(strip(a)[0] == 'p' and strip(a)[1] == b.param_index('unrevealed_message_indexes') for a in fd.read_op(t['args'][1])) for bi, t in s5)
            yield Ob('RF-G2', '%s#s_5:uses-hidden-positions' % fn, ok5 if s5 else None, 'the responses s_5 use r_5 at the hidden positions', b.span, fact=len(s5), expected='index from the hidden-position list')
            continue
        if mapped is not None:
            yield Ob('RF-G2', '%s#%s:created-empty' % (fn, vec), True, 'the mask vector is collected from an iterator (one closure evaluation per element)', b.span,
                     fact=creators, expected='Vec::new() or collect()')
            yield Ob('RF-G2', '%s#%s:draw-per-element' % (fn, vec), bool(mapped['ok']), 'each random mask is drawn by a random_bits call inside the mapped closure', b.span,
                     fact=mapped, expected='random_bits inside the closure')
            continue
        yield Ob('RF-G2', '%s#%s:created-empty' % (fn, vec), fresh_vec, 'the mask vector starts empty and is filled element by element (vec![x; n] would repeat one draw)', b.span,
                 fact=creators, expected='Vec::new()')
        pushes = [(bi, t) for bi, t in b.calls() if (t.get('callee') or '') == 'std::vec::Vec::<T, A>::push' and t['args'][0]['k'] in ('copy', 'move')
                  and fd.resolve_place(t['args'][0]['pl'])[0] == root]
        loops = b.natural_loops()
        rnd = []
        other = []
        for bi, t in pushes:
            from rf_bits import origin_call
            a = t['args'][1]
            oc = _element_draw(eng, zf, a['pl']['l']) if a['k'] in ('copy', 'move') and not a['pl'].get('p') else None
            src_block = None
            if oc is not None and (local_target(eng, oc) or '').endswith('random_bits'):
                src_block = next((x for x, tt in b.calls() if tt is oc), None)
                inner = [(h, bl) for h, bl in loops if bi in bl]
                same = bool(inner) and src_block is not None and all(src_block in bl for h, bl in inner)
                rnd.append((bi, same))
            else:
                other.append(bi)
        yield Ob('RF-G2', '%s#%s:draw-per-element' % (fn, vec), bool(rnd) and all(s for _, s in rnd),
                 'each random mask is drawn by a random_bits call inside the storing loop', b.span, fact={'random_pushes': rnd, 'other_pushes': other}, expected='all in loop')
        if vec == 'r_5':
            kidx = b.param_index('unrevealed_message_indexes')
            res = {}
            for label, blist in (('random', [x for x, _ in rnd]), ('revealed', other)):
                ok = bool(blist)
                for bi in blist:
                    good = False
                    for g in ga.block_gates(fd, bi):
                        if g.kind == 'call' and (g.what or '').endswith('contains') and len(g.operands) >= 2:
                            a0 = g.operands[0]
                            a1 = g.operands[1]
                            on_list = any(strip(a)[0] == 'p' and strip(a)[1] == kidx for a in a0)
                            # the tested value is the induction variable of the counting loop: its atoms are those of the range bounds only
                            idx_ok = all(strip(a)[0] in ('c',) or (a[0] == 'len') for a in a1) or not any(strip(a)[0] == 'p' and strip(a)[1] == kidx for a in a1)
                            want = (label == 'random')
                            if on_list and idx_ok and g.truth == want:
                                good = True
                        # the membership written down once as a table of booleans: `is_hidden[i]` with `is_hidden` false everywhere except at
                        # the positions of the hidden-position list
                        if g.kind in ('match', 'cmp', 'call') and g.edge is not None and g.truth == (label == 'random') and _tests_membership_table(b, fd, g, kidx):
                            good = True
                    ok = ok and good
                res[label] = ok
            yield Ob('RF-G2', '%s#r_5:selection' % fn, res.get('random') and res.get('revealed'),
                     'r_5[i] is a fresh mask iff the hidden-position list contains i (so every hidden attribute is blinded), the revealed value otherwise', b.span,
                     fact=res, expected={'random': True, 'revealed': True})
            # s_5 reads r_5 at the hidden positions themselves
            s5 = [(bi, t) for bi, t in b.calls() if (t.get('callee') or '') in ('core::slice::<impl [T]>::get', 'std::vec::Vec::<T, A>::get')
                  and t['args'][0]['k'] in ('copy', 'move') and fd.resolve_place(t['args'][0]['pl'])[0] == root]
            ok = bool(s5) and all(any(strip(a)[0] == 'p' and strip(a)[1] == kidx for a in fd.read_op(t['args'][1])) for bi, t in s5)
            yield Ob('RF-G2', '%s#s_5:uses-hidden-positions' % fn, ok, 'the responses s_5 use r_5 at the hidden positions', b.span, fact=len(s5), expected='index from the hidden-position list')


# ---------------------------------------------------------------------------------- tolerance exponent shape (C16)
def _shape(zf, op, depth=0, fr=None, za=None):
    """canonical additive shape of a u32/usize expression: sorted list of addends; non-additive sub-terms are rendered structurally."""
    body = zf.body
    if depth > 12:
        return ['?']
    if op['k'] == 'const':
        if 'int' in op:
            return [op['int']]
        return [op.get('uneval', op.get('disp', '?')).split('::')[-1]]
    pl = op['pl']
    ps = pl.get('p', [])
    if ps:
        if len(ps) == 1 and ps[0]['k'] == 'field' and ps[0]['n'] == '0':
            d = zf.single_def(pl['l'])
            if d and d[0] == 'assign' and d[2]['rv']['k'] == 'binop':
                return _shape_binop(zf, d[2]['rv'], depth, fr, za)
        # a named member of a parameter struct (`params.t`): the parameter under the name it has there
        fs = [q for q in ps if q['k'] == 'field']
        if fs and all(q['k'] in ('field', 'deref') for q in ps) and not str(fs[-1]['n']).isdigit():
            r0 = zf.fd.resolve_place({'l': pl['l']})[0]
            if zf.fd.is_param(r0):
                if fr is not None and fr.parent is not None and fr.call is not None and za is not None and r0 - 1 < len(fr.call['args']) \
                        and fr.call['args'][r0 - 1]['k'] in ('copy', 'move'):
                    a_ = fr.call['args'][r0 - 1]
                    return _shape(za.zf(fr.parent.path), {'k': 'copy', 'pl': {'l': a_['pl']['l'], 'p': list(a_['pl'].get('p', [])) + [q for q in ps if q['k'] == 'field']}},
                                  depth + 1, fr.parent, za)
                return [str(fs[-1]['n'])]
        return ['?proj']
    l = pl['l']
    if zf.fd.is_param(l):
        # in a helper frame: continue with the argument the caller passes (names of the entry point are the tabled ones)
        if fr is not None and fr.parent is not None and fr.call is not None and za is not None and l - 1 < len(fr.call['args']):
            return _shape(za.zf(fr.parent.path), fr.call['args'][l - 1], depth + 1, fr.parent, za)
        return [body.local_name(l)]
    d = zf.single_def(l)
    if d is None:
        return [body.local_name(l)]
    kind, bi, x = d
    if kind == 'assign':
        rv = x['rv']
        if rv['k'] == 'use':
            return _shape(zf, rv['op'], depth + 1, fr, za)
        if rv['k'] == 'binop':
            return _shape_binop(zf, rv, depth, fr, za)
        if rv['k'] == 'cast':
            return _shape(zf, rv['op'], depth + 1, fr, za)
        return ['?' + rv['k']]
    cal = x.get('callee') or ''
    if cal.endswith('DivRounding::div_floor') or cal.endswith('::div_floor'):
        return ['(%s)/(%s)' % ('+'.join(_shape(zf, x['args'][0], depth + 1, fr, za)), '+'.join(_shape(zf, x['args'][1], depth + 1, fr, za)))]
    return ['%s(%s)' % (cal.split('::')[-1], ','.join('+'.join(_shape(zf, a, depth + 1, fr, za)) for a in x['args']))]


def _shape_binop(zf, rv, depth, fr=None, za=None):
    op = rv['op'].replace('WithOverflow', '').replace('Unchecked', '')
    a, b = _shape(zf, rv['a'], depth + 1, fr, za), _shape(zf, rv['b'], depth + 1, fr, za)
    if op == 'Add':
        return sorted(a + b)
    if op == 'Div':
        return ['(%s)/(%s)' % ('+'.join(a), '+'.join(b))]
    return ['(%s)%s(%s)' % ('+'.join(a), {'Sub': '-', 'Mul': '*', 'Rem': '%', 'Shl': '<<', 'Shr': '>>'}.get(op, op), '+'.join(b))]


def rule_tolerance_exponent(ctx, cfg='prod-all'):
    """Boudot 2000, proof with tolerance scaled by 2^T: the enlarged interval is [2^T a - 2^(l+t+T/2+1) sqrt(b-a), 2^T b + 2^(l+t+T/2+1) sqrt(b-a)].
    Every power of two whose exponent mentions both the tolerance parameters and T must have exactly the addends {l, t, floor(T/2), 1},
    on the prover and on the verifier side (the two sides are separate code)."""
    from flow import walk
    prog, eng, za = ctx.prog(cfg), ctx.eng(cfg), ctx.zone(cfg)
    want = sorted(['l', 't', '(T)/(2)', '1'])
    for entry in (RP + 'proof_of_tolerance_specific', RP + 'verify_of_tolerance_specific'):
        if entry not in prog.bodies:
            raise AnchorMissing(entry)
        found = []
        for fr in walk(eng, entry, include_closures=False):
            if not fr.path.startswith('cl03::range_proof'):
                continue
            za.summary(fr.path)
            zf = za.zf(fr.path)
            for bi, t in fr.body.calls():
                if (t.get('callee') or '').endswith(('Pow::pow', 'Shl::shl', 'ShlAssign::shl_assign')) and len(t['args']) == 2:
                    sh = _shape(zf, t['args'][1], 0, fr, za)
                    if any('T' in s.replace('?', '') for s in sh) and len(sh) >= 3:
                        found.append((fr.path.split('::')[-1], sh))
        ok = len(found) >= 1 and all(sorted(sh) == want for _, sh in found)
        yield Ob('RF-Q', '%s#tolerance-exponent' % entry, ok, 'the tolerance is 2^(l + t + floor(T/2) + 1) * sqrt(b - a) on both bounds', prog.bodies[entry].span,
                 fact=found[:4], expected=want)
        # the square root in the tolerance is taken of the interval *width* b - a: its operand must be computed from both bounds
        eb = prog.bodies[entry]
        ka, kb = eb.param_index('a'), eb.param_index('b')
        if ka is None or kb is None:
            raise AnchorMissing('%s: parameters a / b' % entry)
        roots = []
        for fr in walk(eng, entry, include_closures=False):
            if not fr.path.startswith('cl03::range_proof'):
                continue
            for bi, t in fr.body.calls():
                cal = t.get('callee') or ''
                if not (cal.startswith('rug::Integer::') and '::sqrt' in cal) or not t['args']:
                    continue
                ps = {strip(a)[1] for a in fr.lift(fr.fd.read_op(t['args'][0])) if strip(a)[0] == 'p'}
                if kb in ps or ka in ps:
                    # (roots of x - a', b' - x also mention the bounds: they depend on the committed value as well and are judged by RF-Q sqrt-on-every-path)
                    kx = eb.param_index('x')
                    if kx is not None and kx in ps:
                        continue
                    roots.append(('%s L%s' % (fr.path.split('::')[-1], t.get('line')), ka in ps, kb in ps))
        yield Ob('RF-Q', '%s#tolerance-root' % entry, len(roots) >= 1 and all(x[1] and x[2] for x in roots),
                 'the square root in the tolerance term is taken of the width b - a (an operand computed from both bounds)', eb.span,
                 fact=[{'site': w, 'depends_on_a': da, 'depends_on_b': db} for w, da, db in roots][:4], expected='both bounds')


def rule_tolerance_parameter(ctx, cfg='prod-all'):
    """T = 2(t + l + 1) + |b - a| with |b - a| the *bit length* of the width (Boudot 2000, 3.1.2): the tolerance 2^(t+l+T/2+1) sqrt(b - a) stays below
    2^T only because the bit length exceeds log2(b - a) for every width - `ceil(log2)` (`next_power_of_two().significant_bits() - 1`, `bits - 1`)
    equals it for powers of two, and then a - 1 and b + 1 are inside the enlarged interval.  Wherever the range-proof code reachable from `prove`
    and from `verify` adds a bit length to something (the expression may sit in the function, in a helper of the module or in a struct literal):
    the sum is the constant 2(t + l + 1), for the module's own t and l, plus `significant_bits` of a difference of two arguments, nothing else."""
    from flow import walk
    from rf_bits import _slice_callees
    prog, eng, za = ctx.prog(cfg), ctx.eng(cfg), ctx.zone(cfg)
    # the module's t and l
    tl = {}
    for p, b in prog.bodies.items():
        if not p.startswith('cl03::range_proof::'):
            continue
        for blk in b.blocks:
            ops = []
            for st in blk['stmts']:
                rv = st.get('rv') or {}
                ops += [rv.get('op'), rv.get('a'), rv.get('b')] + list(rv.get('ops') or [])
            if blk['term']['k'] == 'call':
                ops += blk['term']['args']
            for o in ops:
                if isinstance(o, dict) and o.get('k') == 'const' and 'int' in o:
                    nm = str(o.get('uneval_full') or o.get('uneval') or o.get('disp') or '')
                    for k in ('t', 'l'):
                        if nm.endswith('Boudot2000RangeProof::' + k):
                            tl[k] = int(o['int'])
    if set(tl) != {'t', 'l'}:
        raise AnchorMissing('constants t and l of Boudot2000RangeProof')
    want = 2 * (tl['t'] + tl['l'] + 1)

    def num(x):
        if re.fullmatch(r'[0-9+*() -]+', x or ''):
            try:
                return int(eval(x))
            except Exception:
                return None
        return None
    n = 0
    for entry in (RP + 'prove', RP + 'verify'):
        if entry not in prog.bodies:
            raise AnchorMissing(entry)
        sites = []
        for fr in walk(eng, entry, include_closures=False):
            if not fr.path.startswith('cl03::range_proof::'):
                continue
            b = fr.body
            za.summary(fr.path)
            zf, fd = za.zf(fr.path), fr.fd
            best = None
            for l_ in range(len(b.locals)):
                d = zf.single_def(l_)
                if not d or d[0] != 'assign' or d[2]['rv'].get('k') != 'binop' or 'Add' not in d[2]['rv'].get('op', ''):
                    continue
                sh = _shape(zf, {'k': 'copy', 'pl': {'l': l_}}, 0)
                if any('significant_bits(' in a for a in sh) and (best is None or len(sh) > len(best)):
                    best = sh
            if best is None:
                continue
            consts = [num(a) for a in best if num(a) is not None]
            rest = [a for a in best if num(a) is None]
            okc = sum(consts) == want
            okw = len(rest) == 1 and re.fullmatch(r'significant_bits\([^()]*\)', rest[0]) is not None
            width_ok = False
            for bi2, t2 in b.calls():
                if (t2.get('callee') or '').endswith('significant_bits') and t2['args']:
                    ps = {strip(a)[1] for a in fd.read_op(t2['args'][0]) if strip(a)[0] == 'p'}
                    names = _slice_callees(b, fd, t2['args'][:1])
                    width_ok = len(ps) == 2 and names <= {'sub', 'complete', 'from', 'clone', 'deref', 'borrow', 'into', 'abs'} and 'sub' in names
            sites.append({'in': fr.path.split('::')[-1], 'addends': best, 'constant_part_is_2(t+l+1)': okc, 'one_bit_length_addend': okw, 'taken_of_a_difference_of_two_arguments': width_ok})
        n += len(sites)
        ok = bool(sites) and all(s_['constant_part_is_2(t+l+1)'] and s_['one_bit_length_addend'] and s_['taken_of_a_difference_of_two_arguments'] for s_ in sites)
        yield Ob('RF-Q', '%s#T' % entry, ok, 'T = 2(t + l + 1) + bit length of (b - a)', prog.bodies[entry].span,
                 fact={'t': tl['t'], 'l': tl['l'], 'sites': sites[:3]}, expected='%d + significant_bits(rmax - rmin)' % want)
    yield Ob('RF-Q', 'cl03::range_proof#T-sites', n >= 2, 'places where a bit length is added to the tolerance constant (seen from prove and from verify)', '', fact=n, expected='>= 2', nontrivial=False)


# ---------------------------------------------------------------------------------- C16: the honest prover refuses values outside the interval
def rule_prover_refuses_out_of_range(ctx, cfg='prod-all'):
    """Boudot's decomposition x - a' = x1^2 + x2, b' - x = y1^2 + y2 exists only for a' <= x <= b'.  The prover refuses other values because
    both differences go through an integer square root (which aborts on a negative operand) on every path: each square-root call whose
    operand is computed from the committed value must dominate every return of the function it sits in, and so must the call chain that leads
    to it from proof_of_tolerance_specific.  A path that returns a decomposition without taking the root lets the honest prover emit a proof for
    a value outside the interval."""
    from flow import walk
    prog, eng = ctx.prog(cfg), ctx.eng(cfg)
    root = RP + 'proof_of_tolerance_specific'
    if root not in prog.bodies:
        raise AnchorMissing(root)
    kx = prog.bodies[root].param_index('x')
    if kx is None:
        raise AnchorMissing(root + ' parameter x')
    n = 0
    for fr in walk(eng, root, include_closures=False):
        if fr.path != root and not fr.path.startswith('cl03::range_proof::'):
            continue
        for bi, t in fr.body.calls():
            cal = t.get('callee') or ''
            if not (cal.startswith('rug::Integer::') and '::sqrt' in cal) or not t['args']:
                continue
            atoms = fr.lift(fr.fd.read_op(t['args'][0]))
            if not any(strip(a)[0] == 'p' and strip(a)[1] == kx for a in atoms):
                continue
            ok = all(fr.body.dominates(bi, e) for e in fr.body.exits)
            where = [fr.path.split('::')[-1]]
            f = fr
            while ok and f.parent is not None:
                cb = [bj for bj, tj in f.parent.body.calls() if tj is f.call]
                ok = bool(cb) and all(f.parent.body.dominates(cb[0], e) for e in f.parent.body.exits)
                f = f.parent
                where.append(f.path.split('::')[-1])
            yield Ob('RF-Q', '%s#sqrt-on-every-path[%d]' % (root, n), ok,
                     'the square root of a difference with the committed value is taken on every path to a return (negative differences abort the prover)',
                     '%s L%s' % (fr.body.file(), t['line']), fact={'callee': cal, 'in': list(reversed(where))}, expected='dominates every return')
            n += 1
    yield Ob('RF-Q', '%s#sqrt-census' % root, n >= 2, 'square roots of x - a\' and b\' - x found', prog.bodies[root].span, fact=n, expected='>= 2', nontrivial=False)


# ---------------------------------------------------------------------------------- C17: sibling commitments of one proof use independent randomness
from flow import draw_sites, DRAW_CALLEES


SIBLING_COMMITMENTS = [
    # function, aggregate type suffix, pairs of fields whose commitments must not share all their randomness
    (RP + 'proof_of_tolerance_specific', 'ProofWt', [('E_a_1', 'E_b_1'), ('E_a_2', 'E_b_2')]),
]


def rule_sibling_randomness(ctx, cfg='prod-all', table=SIBLING_COMMITMENTS):
    """the commitments to the two decompositions (x - a' and b' - x) are blinded by independent splits of the randomness: each of the paired
    fields must receive a random draw the other one does not receive.  If one split is computed from the other, products of transmitted
    commitments lose their blinding and a guessed hidden value can be confirmed from the proof alone."""
    prog, eng = ctx.prog(cfg), ctx.eng(cfg)
    for fn, adt, pairs in table:
        b = prog.bodies.get(fn)
        if b is None:
            raise AnchorMissing(fn)
        fd = eng.fndep(fn)
        aggs = [s for bi, s in b.stmts() if s['k'] == 'assign' and s['rv']['k'] == 'agg' and s['rv'].get('name', '').endswith(adt)]
        if len(aggs) != 1:
            raise AnchorMissing('%s: %d constructions of %s' % (fn, len(aggs), adt))
        rv = aggs[0]['rv']
        ops = dict(zip(rv['fields'], rv['ops']))
        for fa, fb in pairs:
            if fa not in ops or fb not in ops:
                raise AnchorMissing('%s: field %s / %s of %s' % (fn, fa, fb, adt))
            da, db = draw_sites(eng, fd, ops[fa]), draw_sites(eng, fd, ops[fb])
            ok = bool(da - db) and bool(db - da)
            yield Ob('RF-G2', '%s#independent:%s/%s' % (fn, fa, fb), ok, 'each of the two commitments receives a random draw of its own', b.span,
                     fact={fa: sorted((l, c) for l, c, _ in da), fb: sorted((l, c) for l, c, _ in db)}, expected='a private draw on each side')


# ---------------------------------------------------------------------------------- bases are selected by attribute position
def rule_bases_by_attribute_position(ctx, cfg='prod-all', scope=('cl03::sigma_protocols::', 'cl03::proof::', 'cl03::commitment::')):
    """Attribute i is committed and signed under base number i (a_i, g_i).  Inside a loop that walks the list of hidden positions, a base must be
    selected by the *element* of that list (the attribute position), never by the running position inside the list (the cursor that
    selects the per-hidden-attribute vectors omega / d / proofs): `g_bases.get(idx)` pairs the k-th hidden attribute with base k instead of base i_k
    and agrees with the commitment only when the hidden positions are a prefix 0..k."""
    prog, eng, za = ctx.prog(cfg), ctx.eng(cfg), ctx.zone(cfg)
    n = 0
    for p, b in sorted(prog.bodies.items()):
        if b.from_expansion or not p.startswith(scope):
            continue
        owner = b if b.kind != 'Closure' else prog.bodies.get(b.j.get('parent_fn', ''), b)
        kidx = None
        for k in range(1, owner.arg_count + 1):
            nm = owner.local_name(k) or ''
            if 'unrevealed' in nm and 'index' in nm and 'usize' in owner.local_ty(k):
                kidx = k
        if kidx is None or b.kind == 'Closure':
            continue
        fd = eng.fndep(p)
        zf = za.zf(p)
        # loops that walk the hidden-position list
        walk_loops = []
        for h, blocks in b.natural_loops():
            for x in blocks:
                t = b.blocks[x]['term']
                if t['k'] == 'call' and (t.get('callee') or '') == 'std::iter::Iterator::next' and t['args'] and t['args'][0]['k'] in ('copy', 'move'):
                    at = fd.read_op(t['args'][0])
                    if any(strip(a)[0] == 'p' and strip(a)[1] == kidx and a[0] not in ('len', 'narrow') for a in at):
                        walk_loops.append(blocks)
        cnt = {}
        for bi, t in b.calls():
            cal = t.get('callee') or ''
            if cal not in ('core::slice::<impl [T]>::get', 'std::vec::Vec::<T, A>::get', 'std::ops::Index::index') or len(t['args']) != 2 or t['args'][0]['k'] not in ('copy', 'move'):
                continue
            root, path = fd.resolve_place(t['args'][0]['pl'])
            nm = (b.local_name(root) or '') + ''.join('.' + str(x) for x in path)
            if not ('g_bases' in nm or nm.startswith('a_bases') or nm.endswith('bases.0')):
                continue
            if not any(bi in bl for bl in walk_loops):
                continue
            n += 1
            at = fd.read_op(t['args'][1])
            by_elem = any(strip(a)[0] == 'p' and strip(a)[1] == kidx and a[0] not in ('len', 'narrow') for a in at)
            cnt[nm] = cnt.get(nm, 0) + 1
            yield Ob('RF-B', '%s#base-by-position:%s[%d]' % (p, nm, cnt[nm]), by_elem,
                     'inside the walk over the hidden positions a base is selected by the attribute position (the list element), not by the running position',
                     '%s L%s' % (b.file(), t.get('line')), fact={'container': nm, 'index_depends_on_list_elements': by_elem, 'index': fmt_atoms(b, at)[:5]},
                     expected='index computed from an element of the hidden-position list')
        # a base handed to a sub-prover / sub-verifier inside the walk is the base of the attribute at hand, not a fixed element of the base list
        # (`check_range_proof(.., (g, h, N), ..)` with the hoisted g = g_bases[0] where the proof of knowledge next to it uses g_bases[i])
        for bi, t in b.calls():
            tgt = local_target(eng, t)
            if tgt is None or not tgt.startswith('cl03::') or not any(bi in bl for bl in walk_loops):
                continue
            for k, a in enumerate(t['args']):
                if a.get('k') not in ('copy', 'move'):
                    continue
                ty = b.local_ty(a['pl']['l']).replace('&mut ', '').lstrip('&').strip()
                if not (ty.endswith('rug::Integer') or ty.startswith('(')):
                    continue          # single bases (or a tuple of them); whole keys / base lists are judged inside the callee
                at = fd.read_op(a)
                from_bases = [x for x in at if x[0] == 'p' and ('g_bases' in x[2] or (owner.local_name(x[1]) or '').startswith('a_bases'))]
                if not from_bases:
                    continue
                n += 1
                by_elem = any(strip(x)[0] == 'p' and strip(x)[1] == kidx and x[0] not in ('len', 'narrow') for x in at)
                key = '%s#base-argument:%s[%d]' % (p, tgt.split('::')[-1], k)
                cnt[key] = cnt.get(key, 0) + 1
                yield Ob('RF-B', key + ('~%d' % cnt[key] if cnt[key] > 1 else ''), by_elem,
                         'inside the walk over the hidden positions a base handed to a sub-proof is selected by the attribute position',
                         '%s L%s' % (b.file(), t.get('line')), fact={'callee': tgt.split('::')[-1], 'argument': k, 'depends_on_list_elements': by_elem,
                                                                      'from': fmt_atoms(b, from_bases)[:3]}, expected='selected by the list element')
    yield Ob('RF-B', 'cl03#base-selections', n >= 6, 'base selections inside walks over the hidden positions', '', fact=n, expected='>= 6', nontrivial=False)
