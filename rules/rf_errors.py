"""RF-Y: a failure reported by a fallible operation is never silently discarded.

Sources: every call in the crate's own code whose result is a `Result<_, errors::Error>` (the crate's error type) or the `CtOption` of a
checked constructor, and every such function / closure handed on *as a value* to an adaptor (`map(Scalar::from_bytes_be)`).
The value is followed forwards through copies, aggregates, pass-through combinators (`map_err`, `map`, `and_then`, `ok_or`, `ok()`,
`Option::from(ct)` ..), iterator adaptors and `collect::<Result<_, _>>()`, into local callees that take it as a parameter, until it is

  observed   `?`, a `match` / `if let` on it, `is_ok` / `is_none` .., `unwrap` / `expect` (a panic is the business of RF-F), or returned
             to the caller (whose own call site is a source again), or
  discarded  `unwrap_or*`, `unwrap_or_default`, iteration over the Result / Option itself (`flat_map`, `flatten`, `filter_map` over fallible
             items, `extend`, `into_iter`), `.ok()` whose Option is then dropped the same way, or never used at all (`let _ = f()`).

A discard turns "invalid input" into "some default / nothing happened": the decoders and verifiers of C02 / C04 / C06 / C09 / C11 then accept
what they must refuse, and no positive fixture notices.  The rule reads only the def-use shape; where it cannot follow a value it says
undecided for that call site, never safe."""
from framework import Ob, AnchorMissing
from flow import local_target

SCOPE = ('bbsplus::', 'utils::util::bbsplus_utils', 'utils::message::bbsplus_message', 'keys::', 'schemes::')
SCOPE_CL03 = ('cl03::', 'utils::random', 'utils::util::cl03_utils')

OBSERVE = ('std::ops::Try::branch', 'std::ops::FromResidual::from_residual')
OBSERVE_SUFFIX = ('::is_ok', '::is_err', '::is_none', '::is_some', '::unwrap', '::expect', '::is_ok_and', '::is_some_and', '::is_err_and', '::is_none_or',
                  '::expect_err', '::unwrap_err', 'PartialEq::eq', 'PartialEq::ne', 'fmt::Debug::fmt')
PASS_SUFFIX = ('::map_err', 'Result::<T, E>::map', 'Option::<T>::map', '::and_then', '::or_else', '::ok_or', '::ok_or_else', 'Result::<T, E>::ok', '::as_ref', '::as_mut',
               '::copied', '::cloned', '::transpose', 'Option::<T>::zip', 'Option::<T>::and', 'Result::<T, E>::and', 'std::convert::From::from', 'std::convert::Into::into',
               '::inspect', '::inspect_err', 'Option::<T>::filter', 'std::clone::Clone::clone', '::as_deref', 'Option::<T>::take', 'Option::<T>::or', 'Result::<T, E>::or')
DISCARD_SUFFIX = ('::unwrap_or', '::unwrap_or_else', '::unwrap_or_default', 'Result::<T, E>::into_iter', 'Option::<T>::into_iter', 'Result::<T, E>::iter', 'Option::<T>::iter',
                  'Result::<T, E>::unwrap_or', 'Option::<T>::unwrap_or', 'Result::<T, E>::map_or', 'Option::<T>::map_or', '::map_or_else', 'Result::<T, E>::err')
ITER_PASS = ('Iterator::map', 'Iterator::filter', 'Iterator::zip', 'Iterator::chain', 'Iterator::enumerate', 'Iterator::rev', 'Iterator::take', 'Iterator::skip',
             'Iterator::peekable', 'Iterator::by_ref', 'Iterator::inspect', 'Iterator::cloned', 'Iterator::copied', 'IntoIterator::into_iter', 'Iterator::fuse',
             'Iterator::take_while', 'Iterator::skip_while', 'Iterator::step_by', 'Iterator::map_while')
ITER_DROP = ('Iterator::flatten', 'Iterator::flat_map', 'Iterator::filter_map')
ITER_COLLECT = ('Iterator::collect', 'Iterator::try_fold', 'Iterator::try_for_each', 'Iterator::sum', 'Iterator::product', 'Iterator::next', 'Iterator::last',
                'Iterator::nth', 'Iterator::find', 'Iterator::fold', 'Iterator::unzip', 'Iterator::partition')


def is_fallible_ty(ty):
    ty = (ty or '').replace('&mut ', '').lstrip('&').strip()
    if ty.startswith('std::result::Result<') and ty.rstrip('>').rstrip().endswith('errors::Error'):
        return True
    if ty.startswith(('elliptic_curve::subtle::CtOption<', 'subtle::CtOption<')):
        return True
    return False


def refusing_option_fn(prog, path):
    """a local function that returns Option and builds both `Some(..)` and `None` itself: None is its way of refusing an input
    (`fn attribute_term(..) -> Option<Integer> { if out_of_range { return None } Some(..) }`)"""
    b = prog.bodies.get(path)
    if b is None or b.kind == 'Closure' or not b.local_ty(0).startswith('std::option::Option<'):
        return False
    some = none = False
    for bi, st in b.stmts():
        if st['k'] == 'assign' and st['dst']['l'] == 0 and not st['dst'].get('p') and st['rv']['k'] == 'agg':
            v = st['rv'].get('variant')
            some = some or v == 'Some'
            none = none or v == 'None'
    return some and none


def closure_returns_refusal(prog, eng, cpath):
    """a closure whose value is (a pass-through of) the result of a refusing local function"""
    cb = prog.bodies.get(cpath)
    if cb is None:
        return None
    if is_fallible_ty(cb.local_ty(0)):
        return cpath.split('::')[-1]
    if not cb.local_ty(0).startswith('std::option::Option<'):
        return None
    for bi, t in cb.calls():
        tgt = local_target(eng, t)
        if tgt and refusing_option_fn(prog, tgt):
            return tgt.split('::')[-1]
    return None


def _fn_value_fallible(prog, o):
    """a constant operand naming a function whose output is fallible (`Scalar::from_bytes_be` handed to `map`)"""
    f = o.get('fn')
    if not f:
        return False
    if f in prog.bodies:
        return is_fallible_ty(prog.bodies[f].local_ty(0))
    ff = o.get('fn_full') or ''
    ty = o.get('ty') or ''
    return ('-> std::result::Result<' in ty and 'errors::Error>' in ty) or 'CtOption<' in ty.split('->')[-1] or f.endswith(('::from_be_bytes', '::from_compressed', '::from_uncompressed', '::from_bytes_be'))


class Follow:
    def __init__(self, ctx, cfg):
        self.ctx, self.cfg = ctx, cfg
        self.prog, self.eng = ctx.prog(cfg), ctx.eng(cfg)
        self._uses = {}

    def uses(self, path):
        """local -> [(kind, block, stmt / terminator, position)] for every read of a place rooted at the local"""
        if path in self._uses:
            return self._uses[path]
        b = self.prog.bodies[path]
        u = {}

        def note(o, rec):
            if isinstance(o, dict) and o.get('k') in ('copy', 'move'):
                u.setdefault(o['pl']['l'], []).append(rec)

        for bi, blk in enumerate(b.blocks):
            if blk['cleanup']:
                continue
            for s in blk['stmts']:
                if s['k'] != 'assign':
                    continue
                rv = s['rv']
                for o in [rv.get('op'), rv.get('a'), rv.get('b')] + list(rv.get('ops') or []):
                    note(o, ('assign', bi, s, None))
                if rv.get('pl') is not None:
                    u.setdefault(rv['pl']['l'], []).append(('discr' if rv['k'] == 'discr' else 'assign', bi, s, None))
            t = blk['term']
            if t['k'] == 'call':
                for k, a in enumerate(t['args']):
                    note(a, ('call', bi, t, k))
            elif t['k'] == 'switch':
                note(t['discr'], ('switch', bi, t, None))
            elif t['k'] == 'drop':
                pass
        self._uses[path] = u
        return u

    def fate(self, path, l, depth=0, seen=None):
        """set of verdicts for the fallible value held in local l of `path`: 'observed', 'returned', ('discard', where, how), 'unknown'"""
        seen = seen if seen is not None else set()
        if (path, l) in seen or depth > 12:
            return set()
        seen.add((path, l))
        b = self.prog.bodies[path]
        if l == 0:
            return {'returned'}
        out = set()
        us = self.uses(path).get(l, [])
        if not us:
            return {('discard', '%s L%s' % (b.file(), self._def_line(b, l)), 'the result is never used')}
        for kind, bi, x, pos in us:
            if kind in ('discr', 'switch'):
                out.add('observed')
            elif kind == 'assign':
                out |= self.fate(path, x['dst']['l'], depth + 1, seen)
            elif kind == 'call':
                t = x
                cal = t.get('callee') or ''
                where = '%s L%s' % (b.file(), t.get('line'))
                dst = t['dst']['l']
                tgt = local_target(self.eng, t)
                if cal in OBSERVE or cal.endswith(OBSERVE_SUFFIX):
                    out.add('observed')
                elif cal.endswith(DISCARD_SUFFIX) and pos == 0:
                    out.add(('discard', where, cal.split('::')[-1]))
                elif cal.endswith(ITER_DROP) and pos == 0:
                    out.add(('discard', where, cal.split('::')[-1] + ' over fallible items'))
                elif (cal.endswith(PASS_SUFFIX) or cal.endswith(ITER_PASS) or cal.endswith(ITER_COLLECT)) and pos == 0:
                    out |= self.fate(path, dst, depth + 1, seen)
                elif cal in ('std::iter::Extend::extend', 'std::vec::Vec::<T, A>::extend') and pos == 1:
                    # extend(iter of Result) into a Vec<Result> keeps them; extend(Result) itself iterates the Ok value only
                    aty = b.local_ty(t['args'][1]['pl']['l'])
                    out.add(('discard', where, 'extend from a Result / Option') if is_fallible_ty(aty) or aty.startswith('std::option::Option<') else 'unknown')
                elif tgt is not None and tgt in self.prog.bodies and pos is not None:
                    cb = self.prog.bodies[tgt]
                    if cb.kind != 'Closure' and pos + 1 <= cb.arg_count:
                        out |= self.fate(tgt, pos + 1, depth + 1, seen)
                    else:
                        out.add('unknown')
                elif cal.endswith(('::push', '::insert', '::push_back')) and pos == 1:
                    # stored in a container: follow the container
                    out |= self.fate(path, self.eng.fndep(path).resolve_place(t['args'][0]['pl'])[0], depth + 1, seen) if t['args'][0]['k'] in ('copy', 'move') else {'unknown'}
                elif cal in ('std::mem::drop', 'core::mem::drop'):
                    out.add(('discard', where, 'drop'))
                else:
                    out.add('unknown')
        return out or {'unknown'}

    def fate_payload(self, path, l, depth=0, seen=None):
        """verdicts for a fallible value that is the *payload* of the Option / Result held in local l (`opt.map(|x| fallible(x))` yields
        Option<Result<..>>): it is looked at only by whoever receives the payload - the parameter of the next closure mapped over it, the
        value `?` extracts - or when the nesting is removed (`flatten`, `and_then(identity)`), or by the caller when returned as it is."""
        seen = seen if seen is not None else set()
        if (path, l, 'payload') in seen or depth > 8:
            return set()
        seen.add((path, l, 'payload'))
        b = self.prog.bodies[path]
        if l == 0:
            return {'returned'}
        us = self.uses(path).get(l, [])
        if not us:
            return {('discard', '%s L%s' % (b.file(), self._def_line(b, l)), 'the result is never used')}
        out = set()
        for kind, bi, x, pos in us:
            if kind == 'assign':
                rv = x['rv']
                src = rv.get('pl') or (rv.get('op') or {}).get('pl') or {}
                if any(q['k'] == 'field' for q in src.get('p', [])):
                    out |= self.fate(path, x['dst']['l'], depth + 1, set())        # the payload itself, taken out of the wrapper
                else:
                    out |= self.fate_payload(path, x['dst']['l'], depth + 1, seen)
            elif kind in ('discr', 'switch'):
                continue          # looks at the wrapper only
            elif kind == 'call':
                t = x
                cal = t.get('callee') or ''
                where = '%s L%s' % (b.file(), t.get('line'))
                if pos != 0:
                    out.add('unknown')
                elif cal in OBSERVE:
                    out |= self.fate_payload(path, t['dst']['l'], depth + 1, seen)      # `?`: ControlFlow<_, payload>; the payload is read out of it by a field projection
                elif cal.endswith(('::flatten', )):
                    out |= self.fate(path, t['dst']['l'], depth + 1, set())
                elif cal.endswith(('Result::<T, E>::map', 'Option::<T>::map', '::and_then', '::is_some_and', '::is_ok_and', '::map_or', '::map_or_else', '::inspect')) and len(t['args']) >= 2:
                    f = t['args'][-1]
                    ci = self.eng.fndep(path)._closure_info(f['pl']['l']) if f.get('k') in ('copy', 'move') and not f['pl'].get('p') else None
                    if ci is not None and ci[0] in self.prog.bodies:
                        pf = self.fate(ci[0], 2, depth + 1, set())
                        if any(isinstance(v, tuple) for v in pf):
                            out |= {('discard', where, '%s: the closure ignores the fallible value it is given' % cal.split('::')[-1])}
                        elif 'returned' in pf and cal.endswith(('::map', )):
                            out |= self.fate_payload(path, t['dst']['l'], depth + 1, seen)   # handed through: still the payload of the result
                        elif 'returned' in pf:
                            out |= self.fate(path, t['dst']['l'], depth + 1, set())          # and_then: now the result itself
                        else:
                            out |= pf
                    else:
                        out.add('unknown')
                elif cal.endswith(('::map_err', '::ok_or', '::ok_or_else', '::as_ref', '::as_mut', 'std::clone::Clone::clone', '::or_else', 'Option::<T>::or', 'Result::<T, E>::or',
                                   'Option::<T>::filter', '::inspect_err')):
                    out |= self.fate_payload(path, t['dst']['l'], depth + 1, seen)
                elif cal.endswith(('::unwrap', '::expect')):
                    out |= self.fate(path, t['dst']['l'], depth + 1, set())
                elif cal.endswith(('::is_ok', '::is_err', '::is_none', '::is_some')):
                    continue      # looks at the wrapper only
                else:
                    out.add('unknown')
        return out or {('discard', '%s L%s' % (b.file(), self._def_line(b, l)), 'only the wrapper of the fallible value is ever looked at')}

    @staticmethod
    def _def_line(b, l):
        for bi, t in b.calls():
            if t['dst']['l'] == l:
                return t.get('line')
        return '?'


def rule_errors_not_discarded(ctx, cfg='prod-all', scope=SCOPE, rule='RF-Y', min_sources=60):
    prog, eng = ctx.prog(cfg), ctx.eng(cfg)
    fo = Follow(ctx, cfg)
    n_src = n_val = 0
    for p, b in sorted(prog.bodies.items()):
        if b.from_expansion or not p.startswith(scope):
            continue
        cnt = {}
        for bi, t in b.calls():
            cal = t.get('callee') or ''
            short = cal.split('::')[-1]
            # (1) a call whose result is fallible (the crate's Result, a checked constructor's CtOption, or the Option of a refusing local function)
            tgt0 = local_target(eng, t)
            if not t['dst'].get('p') and (is_fallible_ty(b.local_ty(t['dst']['l'])) or (tgt0 is not None and b.kind != 'Closure' and refusing_option_fn(prog, tgt0))) \
                    and cal not in OBSERVE and not cal.endswith(PASS_SUFFIX) and not cal.endswith(ITER_COLLECT) and not cal.endswith(ITER_PASS):
                n_src += 1
                fate = fo.fate(p, t['dst']['l'])
                cnt[short] = cnt.get(short, 0) + 1
                for ob in _verdict(rule, '%s#result:%s[%d]' % (p, short, cnt[short]), fate, b, t, 'the result of %s' % short):
                    yield ob
            # (2) a fallible function / closure handed to an adaptor as a value
            for k, a in enumerate(t['args']):
                fall = False
                what = None
                if a.get('k') == 'const' and _fn_value_fallible(prog, a):
                    fall, what = True, (a.get('fn') or '').split('::')[-1]
                elif a.get('k') in ('copy', 'move') and not a['pl'].get('p'):
                    ci = eng.fndep(p)._closure_info(a['pl']['l'])
                    w0 = closure_returns_refusal(prog, eng, ci[0]) if ci and ci[0] in prog.bodies else None
                    if w0:
                        fall, what = True, w0
                if not fall or k == 0:
                    continue
                n_val += 1
                key = '%s#value:%s->%s' % (p, what, short)
                where = '%s L%s' % (b.file(), t.get('line'))
                if cal.endswith(ITER_DROP) or cal.endswith(('Option::<T>::map_or', 'Result::<T, E>::map_or')):
                    yield Ob(rule, key, False, 'a fallible function is applied through %s: its failures are dropped instead of reported' % short, where,
                             fact={'function': what, 'adaptor': cal}, expected='map(..) + collect::<Result<_, _>>()? / a loop with ?')
                elif cal.endswith(('Result::<T, E>::map', 'Option::<T>::map')):
                    # the fallible value becomes the payload of the mapped Option / Result: Option<Result<..>>
                    fate = fo.fate_payload(p, t['dst']['l'])
                    for ob in _verdict(rule, key, fate, b, t, 'the results of %s applied by %s' % (what, short)):
                        yield ob
                elif cal.endswith(('Iterator::map', 'Iterator::map_while', '::and_then', '::or_else')):
                    fate = fo.fate(p, t['dst']['l'])
                    for ob in _verdict(rule, key, fate, b, t, 'the results of %s applied by %s' % (what, short)):
                        yield ob
                elif cal.endswith(('Iterator::for_each', 'Iterator::all', 'Iterator::any', 'Iterator::find', 'Iterator::position', 'Iterator::fold', 'Iterator::try_fold',
                                   'Iterator::try_for_each')) or (local_target(eng, t) is not None):
                    # the adaptor / local helper decides what happens with each result; closures that return a Result to try_* are propagated
                    yield Ob(rule, key, True if cal.endswith(('try_fold', 'try_for_each')) else None,
                             'a fallible closure is handed to %s' % short, where, fact={'function': what, 'adaptor': cal}, expected='results observed', nontrivial=False)
                else:
                    yield Ob(rule, key, None, 'a fallible function value reaches %s: not followed' % short, where, fact={'function': what, 'adaptor': cal}, expected='results observed',
                             nontrivial=False)
    yield Ob(rule, 'crate#fallible-sources', n_src >= min_sources, 'fallible call results followed', '', fact={'call_results': n_src, 'function_values': n_val}, expected='>= %d' % min_sources, nontrivial=False)


def _verdict(rule, key, fate, b, t, what):
    where = '%s L%s' % (b.file(), t.get('line'))
    disc = sorted(x for x in fate if isinstance(x, tuple))
    if disc:
        yield Ob(rule, key, False, '%s can be discarded without being looked at: a failure then counts as success / as a default' % what, where,
                 fact={'discarded_at': [(d[1], d[2]) for d in disc][:4]}, expected='observed (?, match, is_*) or returned on every use')
    elif 'observed' in fate or 'returned' in fate:
        yield Ob(rule, key, True, '%s is observed or handed back to the caller' % what, where,
                 fact={'fate': sorted(str(x) for x in fate)}, expected='observed / returned', nontrivial=False)
    else:
        yield Ob(rule, key, None, '%s could not be followed' % what, where, fact={'fate': sorted(str(x) for x in fate)}, expected='observed / returned', nontrivial=False)



def rule_failures_do_not_pass(ctx, cfg='prod-all'):
    """Looking at the wrapper of a fallible value is an observation, not a discard - unless the *failure* is the outcome that lets the function go on:
    `if recomputed.is_ok_and(|c| c != proof.challenge) { refuse }` accepts when the recomputation itself failed.  In every function reachable from
    the BBS entry points: where the verdict of `Result::is_ok` / `is_ok_and` / `is_err` / `is_err_and` is branched on, the side that includes the
    failure (false for is_ok*, true for is_err*) does not reach a success return of that function."""
    import rf_gatesets
    from rf_gates import resolve_fn
    from flow import walk, accept_blocks
    prog, eng = ctx.prog(cfg), ctx.eng(cfg)
    n, seen, bad, sites = 0, set(), [], 0
    for e in rf_gatesets.ENTRIES['bbs']:
        entry = resolve_fn(prog, e)
        n += 1
        for fr in walk(eng, entry.path, include_closures=False):
            if fr.path in seen or not fr.path.startswith(('bbsplus::', 'utils::')):
                continue
            seen.add(fr.path)
            b, fd = fr.body, fr.fd
            acc = {bi for bi, kind, extra in accept_blocks(fd)}
            if not acc:
                continue
            for bi, t in b.calls():
                cal = t.get('callee') or ''
                short = cal.split('::')[-1]
                if 'Result' not in cal or short not in ('is_ok', 'is_ok_and', 'is_err', 'is_err_and'):
                    continue
                sites += 1
                # the switch that reads the verdict (through `!`)
                l, neg = t['dst']['l'], False
                target = None
                for _ in range(4):
                    for x in range(b.n):
                        tt = b.blocks[x]['term']
                        if tt['k'] == 'switch' and tt['discr'].get('k') in ('copy', 'move') and tt['discr']['pl']['l'] == l:
                            target = x
                    if target is not None:
                        break
                    nxt = [l2 for l2, ds in fd.defs.items() for kd, _b, xx in ds if kd == 'assign' and xx['rv'].get('k') == 'unop' and xx['rv'].get('op') == 'Not'
                           and xx['rv']['a'].get('k') in ('copy', 'move') and xx['rv']['a']['pl']['l'] == l]
                    if not nxt:
                        break
                    l, neg = nxt[0], not neg
                if target is None:
                    continue
                tt = b.blocks[target]['term']
                zero = [bb for v, bb in tt['targets'] if v == '0']
                if not zero:
                    continue
                false_side, true_side = zero[0], tt['otherwise']
                failure_outcome = short in ('is_err', 'is_err_and')          # the verdict that includes "the operation failed"
                if neg:
                    failure_outcome = not failure_outcome
                side = true_side if failure_outcome else false_side
                if any(a in b.reachable(side) or a == side for a in acc):
                    bad.append({'in': fr.path.split('::')[-1], 'line': t.get('line'), 'test': short})
    yield Ob('RF-Y', 'bbsplus#failures-do-not-pass', not bad, 'no function goes on to a success return because a fallible operation failed', '',
             fact={'entries': n, 'functions': len(seen), 'verdicts_branched_on': sites, 'failures_that_count_as_passing': bad[:6]}, expected='none')
    yield Ob('RF-Y', 'bbsplus#failures-do-not-pass-entries', n >= 8, 'entry points examined', '', fact=n, expected='>= 8', nontrivial=False)
