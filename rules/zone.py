"""A3: linear length / index domain (difference bounds) and the panic-site census (RF-F), decoder
framing (RF-E), limit guards (RF-L).

Values of type usize are abstracted by terms `sym + c`.  Symbols: `p<k>` (usize parameter), `len:<root>.<path>`
(length of a container that is never mutated in the body), `N:<name>` (const generic), `v<l>` (opaque
single-assignment value), loop induction variables.  Facts `t1 <= t2` come from the comparison the current
block is dominated by, from checked arithmetic, from `for i in a..b` and from definitions.  Queries are answered
by a difference-bound closure; *unknown* is never turned into *safe*."""
from dep import Engine, FnDep, ALIAS_CALLS
from mir import fmt_term, fmt_op, fmt_place

UMAX = 2 ** 64 - 1
# Largest size in bytes of one allocated object.  The language guarantees isize::MAX; every platform the crate can run on has far less
# virtual address space per process (47 / 48 bits, 56 / 57 with five-level paging).  Lengths of slices and vectors are bounded by
# 2^56 / size_of(element): with the language bound alone, sums of three octet-string lengths (buffer capacities such as
# `with_capacity(a.len() + b.len() + c.len())`) could formally overflow although no such inputs can exist.  Stated as an assumption
# in DESIGN.md and in every evidence file.  Caller-chosen *counts* that are not lengths stay unbounded.
IMAX = 2 ** 56 - 1

DEREF_CALLS = ('std::ops::Deref::deref', 'std::ops::DerefMut::deref_mut', 'std::vec::Vec::<T, A>::as_slice',
               'std::vec::Vec::<T, A>::as_mut_slice', 'std::convert::AsRef::as_ref', 'std::borrow::Borrow::borrow',
               'std::convert::AsMut::as_mut')
SAME_LEN_CALLS = ('std::slice::<impl [T]>::to_vec', 'std::clone::Clone::clone', 'std::borrow::ToOwned::to_owned')
INDEX_CALLS = ('std::ops::Index::index', 'std::ops::IndexMut::index_mut')
PASS_CALLS = ('std::ops::Try::branch', 'std::option::Option::<T>::ok_or', 'std::option::Option::<T>::ok_or_else',
              'std::result::Result::<T, E>::map_err', 'std::option::Option::<T>::unwrap', 'std::option::Option::<T>::expect',
              'std::result::Result::<T, E>::unwrap', 'std::result::Result::<T, E>::expect')
LEN_CALLS = ('core::slice::<impl [T]>::len', 'std::vec::Vec::<T, A>::len')
MUTATORS_LEN_PRESERVING = ('core::slice::<impl [T]>::copy_from_slice', 'std::slice::<impl [T]>::sort', 'core::slice::<impl [T]>::sort',
                           'elliptic_curve::hash2curve::Expander::fill_bytes', 'rand::RngCore::fill_bytes', 'core::slice::<impl [T]>::fill',
                           'std::slice::<impl [T]>::sort_unstable', 'core::slice::<impl [T]>::reverse', 'core::slice::<impl [T]>::iter_mut',
                           'core::slice::<impl [T]>::swap', 'core::slice::<impl [T]>::get_mut', 'core::slice::<impl [T]>::first_mut',
                           'core::slice::<impl [T]>::last_mut', 'core::slice::<impl [T]>::clone_from_slice', 'core::slice::<impl [T]>::sort_by',
                           'core::slice::<impl [T]>::sort_by_key', 'core::slice::<impl [T]>::sort_unstable_by', 'core::slice::<impl [T]>::rotate_left',
                           'core::slice::<impl [T]>::rotate_right', 'rug::Integer::write_digits', 'rug::Integer::write_digits_unaligned')
PANIC_FNS = ('core::panicking::panic', 'core::panicking::panic_fmt', 'core::panicking::panic_display', 'core::panicking::assert_failed',
             'core::panicking::panic_explicit', 'core::panicking::unreachable_display', 'std::rt::begin_panic', 'core::panicking::panic_nounwind',
             'std::rt::panic_fmt')
UNWRAP_FNS = ('std::option::Option::<T>::unwrap', 'std::option::Option::<T>::expect', 'std::result::Result::<T, E>::unwrap',
              'std::result::Result::<T, E>::expect', 'std::result::Result::<T, E>::unwrap_err', 'std::result::Result::<T, E>::expect_err')
CT_UNWRAP = ('elliptic_curve::subtle::CtOption::<T>::unwrap', 'subtle::CtOption::<T>::unwrap', 'elliptic_curve::subtle::CtOption::<T>::expect')


ELEM_SIZE = (('u8', 1), ('usize', 8), ('u64', 8), ('bls12_381_plus::Scalar', 32), ('bls12_381_plus::G1Projective', 144),
             ('bls12_381_plus::G2Projective', 288), ('std::vec::Vec<', 24), ('utils::message::bbsplus_message::BBSplusMessage', 32),
             ('rug::Integer', 16), ('std::string::String', 24))


def elem_size_of(ty):
    """size of the element type of a slice / Vec / array type string (lower bound; 1 if unknown)."""
    s = ty.strip()
    for pre in ('&mut ', '&'):
        if s.startswith(pre):
            s = s[len(pre):].strip()
    inner = None
    if s.startswith('std::vec::Vec<'):
        inner = s[len('std::vec::Vec<'):-1]
    elif s.startswith('['):
        inner = s[1:-1].split(';')[0].strip()
    if inner is None:
        return 1
    for k, v in ELEM_SIZE:
        if inner == k or (k.endswith('<') and inner.startswith(k)):
            return v
    return 1


def tadd(t, k):
    return None if t is None else (t[0], t[1] + k)


def tsub(t1, t2):
    """t1 - t2 as a term, if representable."""
    if t1 is None or t2 is None:
        return None
    if t2[0] is None:
        return (t1[0], t1[1] - t2[1])
    if t1[0] == t2[0]:
        return (None, t1[1] - t2[1])
    return None


def tfmt(t):
    if t is None:
        return '?'
    if t[0] is None:
        return str(t[1])
    return t[0] if t[1] == 0 else '%s%+d' % (t[0], t[1])


def parse_array_len(ty):
    """'[u8; 48]' / '&[u8; 48]' / '&mut [T; N]' -> '48' / 'N' ; None for slices."""
    s = ty.strip()
    while s.startswith('&'):
        s = s[1:].strip()
        if s.startswith("'"):
            s = s.split(' ', 1)[1] if ' ' in s else s
        if s.startswith('mut '):
            s = s[4:]
    if s.startswith('[') and s.endswith(']') and '; ' in s:
        # find the last '; ' at bracket depth 1
        depth = 0
        pos = None
        for i, ch in enumerate(s):
            if ch in '[(<':
                depth += 1
            elif ch in '])>':
                depth -= 1
            elif ch == ';' and depth == 1:
                pos = i
        if pos is not None:
            return s[pos + 1:-1].strip()
    return None


class Site:
    def __init__(self, fn, block, kind, desc, need, line, span=None, detail=None):
        self.fn = fn
        self.block = block
        self.kind = kind        # 'bounds' | 'overflow' | 'range' | 'unwrap' | 'ctunwrap' | 'panic' | 'copylen' | 'split' | 'div' | 'callee'
        self.desc = desc        # stable descriptor (names, no lines)
        self.need = need        # list of (t1, t2) meaning t1 <= t2 must hold; None if not expressible
        self.line = line
        self.span = span
        self.detail = detail
        self.status = None      # 'safe:<why>' | 'pre' | 'unknown'
        self.pre = None         # precondition in parameter symbols (list of (t1,t2))
        self.origin = None      # for propagated preconditions: the original site

    def key(self):
        return '%s#%s:%s' % (self.fn, self.kind, self.desc)


SUCCESS_PRESERVING = ('std::result::Result::<T, E>::and_then', 'std::option::Option::<T>::and_then', 'std::result::Result::<T, E>::map',
                      'std::option::Option::<T>::map', 'std::option::Option::<T>::filter', 'std::result::Result::<T, E>::and',
                      'std::option::Option::<T>::and', 'std::option::Option::<T>::zip')


class ZoneFn:
    def __init__(self, za, body, overrides=None, cg=None):
        self.za = za
        self.body = body
        self.overrides = overrides or {}     # parameter local -> constant term (one call site of a local closure, analysed on its own)
        self.cg = cg or {}                   # const generic parameter name -> value (one instantiation of a generic function, analysed on its own)
        self.fd = za.eng.fndep(body.path)
        self._term = {}
        self._desc = {}
        self.global_facts = []      # (def_block or None, t1, t2)  t1 <= t2
        self.edge_facts = {}        # (switch_block, succ) -> [(t1,t2)]
        self.edge_mods = {}         # (switch_block, succ) -> [(sym, c, m)]  meaning (sym + c) % m == 0 on that edge
        self.fresh = 0
        self.sym_bound = {}
        self.inv_facts = []    # facts about locals assigned on several paths that hold for each of their values
        self.scaled = {}       # opaque symbol -> ('div'|'mul', x, c, block): x / c or c * x
        self.sym_le = {}       # opaque symbol -> a term it never exceeds (quotients, differences)
        self.elem_of = {}      # symbol of one element read -> elem:<container> that bounds it
        self._ub_guard = set()
        self._ub_inprog = set()
        self.mut_roots = self._mut_roots()
        self.loops = body.natural_loops()
        self._fact_cache = {}
        self._lb_done = set()
        self._collect_edge_facts()
        self.sites = []
        self.retlen = {}
        self.elem_ub = {}

    def prime(self):
        """facts are produced while terms are computed: compute every term once, then drop cached fact sets."""
        for bi, blk in enumerate(self.body.blocks):
            if blk['cleanup']:
                continue
            for s in blk['stmts']:
                if s['k'] == 'assign':
                    rv = s['rv']
                    for o in (rv.get('op'), rv.get('a'), rv.get('b')):
                        if isinstance(o, dict) and o.get('k') in ('copy', 'move', 'const'):
                            self.term_op(o)
                    if not s['dst'].get('p'):
                        self.term_local(s['dst']['l'])
            t = blk['term']
            if t['k'] == 'call':
                for a in t['args']:
                    self.term_op(a)
                if not t['dst'].get('p'):
                    self.term_local(t['dst']['l'])
                    self.desc_local(t['dst']['l'])
                    self._retelem_facts(bi, t)
            elif t['k'] == 'assert':
                for o in t['ops']:
                    self.term_op(o)
        self._fact_cache = {k: v for k, v in self._fact_cache.items() if isinstance(k, tuple) and k and k[0] == 'pb'}
        if self._collect_loop_quantifiers():
            self._fact_cache = {k: v for k, v in self._fact_cache.items() if isinstance(k, tuple) and k and k[0] == 'pb'}

    def _retelem_facts(self, bi, t):
        """a local callee that returns a vector of indexes all below a parameter term: the same bound holds for the result here"""
        from flow import local_target
        tgt = local_target(self.za.eng, t)
        if tgt is None or tgt == self.body.path:
            return
        summ = self.za.summary(tgt)
        if not summ or not summ.get('retelem'):
            return
        es = self.elem_sym_of_desc(self.desc_local(t['dst']['l']))
        if es is None:
            return
        for (k, T) in summ['retelem']:
            b = self.za.subst(self, t, T)
            if b is not None:
                self.global_facts.append((bi, (es, k), b))

    def _invariant_in(self, t, blocks):
        """is the term's symbol defined outside the loop (parameters, lengths, constants, captures, values computed before the loop)?"""
        if t is None:
            return False
        sy = t[0]
        if sy is None or sy.startswith(('p', 'len:', 'cap', 'N:', 'elem:')):
            return True
        import re
        m = re.match(r'^v(\d+)p?$', sy)
        if m:
            d = self.single_def(int(m.group(1)))
            return d is not None and d[1] not in blocks
        return False

    def _collect_loop_quantifiers(self):
        """`for e in c { if !(e OP bound) { return / break } ... }`: on the edge that leaves the loop because the iterator is exhausted, every
        element of c satisfies what each back edge guarantees about the current element (bounds that do not change inside the loop)."""
        body = self.body
        added = False
        for h, blocks in self.loops:
            for bn in sorted(blocks):
                t = body.blocks[bn]['term']
                if t['k'] != 'call' or (t.get('callee') or '') != 'std::iter::Iterator::next' or t['dst'].get('p') or not t['args']:
                    continue
                es = self.elem_sym_of_iter(t['args'][0])
                if es is None:
                    continue
                r = t['dst']['l']
                vsym = 'v%de' % r
                # the switch on the discriminant of the next() result, and its edge out of the loop
                exit_edges = []
                for sb in blocks:
                    st = body.blocks[sb]['term']
                    if st['k'] != 'switch' or st['discr']['k'] not in ('copy', 'move') or st['discr']['pl'].get('p'):
                        continue
                    d = self.single_def(st['discr']['pl']['l'])
                    if d and d[0] == 'assign' and d[2]['rv']['k'] == 'discr' and not d[2]['rv']['pl'].get('p') and d[2]['rv']['pl']['l'] == r:
                        for v, x in st['targets']:
                            if v == '0' and x not in blocks:        # discriminant 0 = None: the iterator is exhausted
                                exit_edges.append((sb, x))
                if len(exit_edges) != 1:
                    continue
                latches = [x for x in blocks if h in body.succ[x]]
                if not latches:
                    continue
                common = None
                for la in latches:
                    fs = set()
                    for (a, b) in self.facts_at(la):
                        if a is not None and a[0] == vsym and self._invariant_in(b, blocks):
                            fs.add((a[1], b))
                    common = fs if common is None else (common & fs)
                for (k, b) in sorted(common or [], key=str):
                    self.edge_facts.setdefault(exit_edges[0], []).append(((es, k), b))
                    added = True
        return added

    # ------------------------------------------------------------------ mutation census
    def _len_before_mutation(self, pl, bi):
        """length of a vector that is changed later in the body, read at a block no mutation can come before: what its creating call returned"""
        fd, body = self.fd, self.body
        root, path = fd.resolve_place(pl)
        if path or fd.is_param(root) or root not in self.mut_roots:
            return None
        d = self.single_def(root)
        if d is None or d[0] != 'call':
            # `let mut v = f(..)?` : the payload of one call, moved into the variable once
            ds = [x for x in fd.defs.get(root, []) if not x[2].get('dst', {}).get('p')]
            if len(ds) != 1 or ds[0][0] != 'assign' or ds[0][2]['rv']['k'] != 'use' or ds[0][2]['rv']['op']['k'] not in ('copy', 'move'):
                return None
            src = ds[0][2]['rv']['op']['pl']
            o = self._origin_call(src['l'])
            if o is None or not any(q['k'] == 'downcast' and q['n'] in ('Continue', 'Ok', 'Some') for q in src.get('p', [])):
                return None
            call = o[1]
        else:
            call = d[2]
        muts = []
        for mb, t in body.calls():
            for a in t['args']:
                if a['k'] in ('copy', 'move') and body.local_ty(a['pl']['l']).startswith('&mut ') and fd.resolve_place(a['pl'])[0] == root:
                    muts.append(mb)
        # can a mutating call run before block bi?
        seen, st = set(), list(muts)
        while st:
            b = st.pop()
            for s2 in body.succ[b]:
                if s2 not in seen and not body.blocks[s2]['cleanup']:
                    seen.add(s2)
                    st.append(s2)
        if bi in seen or bi in muts:
            return None
        r = self.za.call_retlen(self, call, ())
        return r if r is not None and not self.unstable(r) else None

    def _mut_roots(self):
        """local roots whose length may change inside the body (borrowed mutably by a non length-preserving callee,
        or assigned more than once)."""
        fd, body = self.fd, self.body
        roots = set()
        for bi, t in body.calls():
            cal = t.get('callee') or ''
            for a in t['args']:
                if a['k'] in ('copy', 'move'):
                    ty = body.local_ty(a['pl']['l'])
                    if ty.startswith('&mut ') and cal not in MUTATORS_LEN_PRESERVING and cal not in DEREF_CALLS and cal not in INDEX_CALLS \
                            and cal != 'std::iter::Iterator::next' \
                            and not ty[5:].startswith(('std::slice::Iter<', 'std::iter::', 'std::ops::Range', 'std::slice::Chunks', 'std::slice::Windows',
                                                       'std::str::', 'std::option::IntoIter', 'std::fmt::')):
                        # (advancing a shared iterator over a container does not change the container)
                        r, p = fd.resolve_place(a['pl'])
                        roots.add(r)
                    # by-mut closure captures
                    if not a['pl'].get('p'):
                        ci = fd._closure_info(a['pl']['l'])
                        if ci:
                            for c in ci[1]:
                                if c['k'] in ('copy', 'move') and body.local_ty(c['pl']['l']).startswith('&mut '):
                                    roots.add(fd.resolve_place(c['pl'])[0])
        for l, ds in fd.defs.items():
            if len(ds) > 1:
                roots.add(l)
        return roots

    # ------------------------------------------------------------------ terms
    def sym_ub(self, sym):
        if sym is None:
            return 0
        if sym in self.sym_le and sym not in self._ub_guard:
            self._ub_guard.add(sym)
            a = self.sym_le[sym]
            v = a[1] if a[0] is None else min(UMAX, self.sym_ub(a[0]) + a[1])
            self._ub_guard.discard(sym)
            return max(0, min(v, self.sym_bound.get(sym, UMAX)))
        if sym in self.sym_bound:
            return self.sym_bound[sym]
        if self.body.kind == 'Closure' and (sym.startswith('cap') or (sym[0] == 'p' and sym[1:].isdigit())) and sym not in self._ub_guard:
            self._ub_guard.add(sym)
            v = self._closure_sym_ub(sym)
            self._ub_guard.discard(sym)
            if v is not None:
                self.sym_bound[sym] = v
                return v
        if sym.startswith('len'):
            return IMAX
        return UMAX

    # ------------------------------------------------------------------ closures: context of the creating body
    def closure_ctx(self):
        """(creator ZoneFn, creation block, capture operands, consumer call block, consumer call) of this closure body"""
        if getattr(self, '_cctx', False) is not False:
            return self._cctx
        self._cctx = None
        cr = self.za.closure_creator(self.body.path)
        if cr is None:
            return None
        cpath, cb, rv = cr
        pzf = self.za.zf(cpath)
        consumer = None
        for bi, t in pzf.body.calls():
            for a in t['args']:
                if a['k'] in ('copy', 'move') and not a['pl'].get('p'):
                    ci = pzf.fd._closure_info(a['pl']['l'])
                    if ci and ci[0] == self.body.path:
                        consumer = (bi, t)
        self._cctx = (pzf, cb, rv['ops'], consumer)
        return self._cctx

    def _closure_sym_ub(self, sym):
        ctx = self.closure_ctx()
        if ctx is None:
            return None
        pzf, cb, caps, consumer = ctx
        if sym.startswith('cap'):
            k = sym[3:]
            if not k.isdigit() or int(k) >= len(caps):
                return None
            t = pzf.term_op(caps[int(k)])
            return pzf.upper_bound(t, cb) if t is not None else None
        # `core::array::from_fn::<T, N, _>(|k| ..)`: the closure is called with k = 0 .. N - 1
        if consumer is not None and sym == 'p2' and (consumer[1].get('callee') or '').endswith('array::from_fn'):
            n = parse_array_len(pzf.body.local_ty(consumer[1]['dst']['l']))
            if n is not None:
                v = int(n) if n.isdigit() else (self.cg.get(n) if self.cg.get(n) is not None else pzf.cg.get(n))
                if v is not None and v >= 1:
                    return v - 1
            return None
        # element parameter of a closure handed to an iterator adaptor over a container
        if consumer is not None:
            bi, t = consumer
            es = self.closure_elem_sym(sym)
            if es is not None:
                return pzf.upper_bound((es, 0), bi)
        return None

    def _window_len(self, root):
        """the element parameter of a closure handed to an iterator method over `xs.windows(k)` / `xs.chunks_exact(k)` with a literal k is a
        slice of exactly k elements"""
        ctx = self.closure_ctx()
        if ctx is None or ctx[3] is None:
            return None
        pzf, cb, caps, (bi, t) = ctx
        cal = t.get('callee') or ''
        if not cal.startswith('std::iter::Iterator::') or not t['args']:
            return None
        want = 3 if cal.endswith(('::fold', '::try_fold')) else 2
        if root != want:
            return None
        op = t['args'][0]
        for _ in range(8):
            if op['k'] not in ('copy', 'move') or any(q['k'] != 'deref' for q in op['pl'].get('p', [])):
                return None
            d = pzf.single_def(op['pl']['l'])
            if d is None:
                return None
            if d[0] == 'assign' and not d[2]['dst'].get('p'):
                rv = d[2]['rv']
                if rv['k'] == 'use' and rv['op']['k'] in ('copy', 'move'):
                    op = rv['op']
                    continue
                if rv['k'] in ('ref', 'rawptr'):
                    op = {'k': 'copy', 'pl': rv['pl']}
                    continue
                return None
            if d[0] != 'call' or not d[2]['args']:
                return None
            c2 = d[2].get('callee') or ''
            if c2 in ('std::iter::IntoIterator::into_iter', 'std::iter::Iterator::by_ref', 'std::iter::Iterator::rev'):
                op = d[2]['args'][0]
                continue
            if c2.endswith(('<impl [T]>::windows', '<impl [T]>::chunks_exact', '<impl [T]>::rchunks_exact')) and len(d[2]['args']) == 2:
                kt = pzf.term_op(d[2]['args'][1])
                if kt is not None and kt[0] is None and kt[1] >= 1:
                    return kt[1]
            return None
        return None

    def closure_elem_sym(self, sym):
        """`elem:<container>` (in the creating body's terms) a closure's element symbol stands for: `p2` for map / any / all / find ...,
        `p3` for fold (after the accumulator), `p<k>.<n>` for the n-th component of a zip element"""
        ctx = self.closure_ctx()
        if ctx is None or ctx[3] is None:
            return None
        pzf, cb, caps, (bi, t) = ctx
        cal = t.get('callee') or ''
        if not cal.startswith('std::iter::Iterator::') or not t['args']:
            return None
        want = 3 if cal.endswith(('::fold', '::try_fold')) else 2
        base, _, comp = sym.partition('.')
        if base != 'p%d' % want:
            return None
        comps = pzf.iter_components(t['args'][0])
        if comps is None:
            # the iterator is a parameter of the creating function (`terms: impl Iterator<Item = (&usize, Scalar)>`): its items are whatever the
            # caller's iterator yields; named `elem:<param>[.<component>]` and resolved at each call site
            a0 = t['args'][0]
            if a0['k'] in ('copy', 'move'):
                root, path = pzf.fd.resolve_place(a0['pl'])
                if pzf.fd.is_param(root) and not path and pzf.body.kind != 'Closure' \
                        and not pzf.body.local_ty(root).replace('&mut ', '').lstrip('&').strip().startswith(('[', 'std::vec::Vec<')):
                    return 'elem:%s%s' % (pzf.body.local_name(root), ('.' + comp) if comp else '')
            return None
        if comp == '':
            if len(comps) == 1 and comps[0] is not None and comps[0][0] == 'iterparam':
                return 'elem:%s' % pzf.body.local_name(comps[0][1])
            return pzf.elem_sym_of_desc(comps[0]) if len(comps) == 1 and comps[0] is not None else None
        if len(comps) == 1 and comps[0] is not None and comps[0][0] == 'iterparam':
            return 'elem:%s.%s' % (pzf.body.local_name(comps[0][1]), comp)
        if comp.isdigit() and len(comps) > 1 and int(comp) < len(comps) and comps[int(comp)] is not None:
            if comps[int(comp)][0] == 'iterparam':
                return 'elem:%s' % pzf.body.local_name(comps[int(comp)][1])      # the items of that iterator parameter
            return pzf.elem_sym_of_desc(comps[int(comp)])
        return None

    def _enumerate_source(self, op, depth=0):
        """the operand an `enumerate()` was applied to, when the iterator operand (through borrows / by_ref / into_iter) is an Enumerate"""
        if op['k'] not in ('copy', 'move') or depth > 8 or any(p['k'] != 'deref' for p in op['pl'].get('p', [])):
            return None
        d = self.single_def(op['pl']['l'])
        if d is None:
            return None
        if d[0] == 'call' and d[2]['args']:
            cal = d[2].get('callee') or ''
            if cal == 'std::iter::Iterator::enumerate':
                return d[2]['args'][0]
            if cal in ('std::iter::IntoIterator::into_iter', 'std::iter::Iterator::by_ref'):
                return self._enumerate_source(d[2]['args'][0], depth + 1)
            return None
        if d[0] == 'assign' and not d[2]['dst'].get('p'):
            rv = d[2]['rv']
            if rv['k'] == 'use' and rv['op']['k'] in ('copy', 'move'):
                return self._enumerate_source(rv['op'], depth + 1)
            if rv['k'] in ('ref', 'rawptr'):
                return self._enumerate_source({'k': 'copy', 'pl': rv['pl']}, depth + 1)
        return None

    def iter_components(self, op, depth=0):
        """containers behind an iterator operand: [c] for a plain iteration, [c1, c2] for c1.iter().zip(c2) (None where unknown)"""
        if op['k'] not in ('copy', 'move') or depth > 10:
            return None
        pl = op['pl']
        if not any(p['k'] != 'deref' for p in pl.get('p', [])):
            d = self.single_def(pl['l'])
            if d is not None and d[0] == 'call' and d[2]['args']:
                cal = d[2].get('callee') or ''
                if cal in ('std::iter::Iterator::zip', 'std::iter::zip') and len(d[2]['args']) == 2:
                    return [self.iter_container(d[2]['args'][0]), self.iter_container(d[2]['args'][1])]
                if cal in ('std::iter::IntoIterator::into_iter', 'std::iter::Iterator::by_ref', 'std::iter::Iterator::rev', 'std::iter::Iterator::peekable'):
                    return self.iter_components(d[2]['args'][0], depth + 1)
            if d is not None and d[0] == 'assign' and not d[2]['dst'].get('p'):
                rv = d[2]['rv']
                if rv['k'] == 'use' and rv['op']['k'] in ('copy', 'move'):
                    return self.iter_components(rv['op'], depth + 1)
                if rv['k'] in ('ref', 'rawptr'):
                    return self.iter_components({'k': 'copy', 'pl': rv['pl']}, depth + 1)
        c = self.iter_container(op)
        return [c] if c is not None else None

    def iter_container(self, op, depth=0):
        """descriptor of the container an iterator operand runs over (through iter / into_iter / copied / cloned / by_ref and borrows)"""
        if op['k'] not in ('copy', 'move') or depth > 10:
            return None
        pl = op['pl']
        if any(p['k'] != 'deref' for p in pl.get('p', [])):
            return None
        l = pl['l']
        ty = self.body.local_ty(l).replace('&mut ', '').lstrip('&').strip()
        if ty.startswith(('[', 'std::vec::Vec<')):
            return self.desc_place(pl)
        if self.fd.is_param(l) and self.body.kind != 'Closure':
            return ('iterparam', l)       # an iterator handed in by the caller: its items are known only at the call sites
        d = self.single_def(l)
        if d is None:
            return None
        kind, bi, x = d
        if kind == 'assign' and not x['dst'].get('p'):
            rv = x['rv']
            if rv['k'] == 'use' and rv['op']['k'] in ('copy', 'move'):
                return self.iter_container(rv['op'], depth + 1)
            if rv['k'] in ('ref', 'rawptr'):
                return self.iter_container({'k': 'copy', 'pl': rv['pl']}, depth + 1)
            if rv['k'] == 'agg' and rv.get('name') == 'std::ops::Range' and len(rv.get('ops', [])) == 2 and ty.startswith('std::ops::Range<u'):
                return ('rangeiter', l, self.term_op(rv['ops'][0]), self.term_op(rv['ops'][1]))
            return None
        if kind == 'call' and x['args']:
            cal = x.get('callee') or ''
            if cal in ('core::slice::<impl [T]>::iter', 'core::slice::<impl [T]>::iter_mut', 'std::iter::IntoIterator::into_iter', 'std::iter::Iterator::copied',
                       'std::iter::Iterator::cloned', 'std::iter::Iterator::by_ref', 'std::ops::Deref::deref', 'std::vec::Vec::<T, A>::as_slice'):
                return self.iter_container(x['args'][0], depth + 1)
        return None

    def iter_len(self, op, depth=0):
        """number of items an iterator operand yields, when it is a container / range seen through length-preserving adaptors"""
        if op['k'] not in ('copy', 'move') or depth > 10:
            return None
        pl = op['pl']
        if any(p['k'] != 'deref' for p in pl.get('p', [])):
            return None
        l = pl['l']
        ty = self.body.local_ty(l).replace('&mut ', '').lstrip('&').strip()
        if ty.startswith(('[', 'std::vec::Vec<')):
            return self.len_of_place(pl)
        d = self.single_def(l)
        if d is None:
            return None
        kind, bi, x = d
        if kind == 'assign' and not x['dst'].get('p'):
            rv = x['rv']
            if rv['k'] == 'use' and rv['op']['k'] in ('copy', 'move'):
                return self.iter_len(rv['op'], depth + 1)
            if rv['k'] in ('ref', 'rawptr'):
                return self.iter_len({'k': 'copy', 'pl': rv['pl']}, depth + 1)
            if rv['k'] == 'agg' and rv.get('name') == 'std::ops::Range' and len(rv.get('ops', [])) == 2:
                a, b = self.term_op(rv['ops'][0]), self.term_op(rv['ops'][1])
                return tsub(b, a)
            return None
        if kind == 'call' and x['args']:
            cal = x.get('callee') or ''
            if cal in ('core::slice::<impl [T]>::iter', 'core::slice::<impl [T]>::iter_mut', 'std::iter::IntoIterator::into_iter', 'std::iter::Iterator::copied',
                       'std::iter::Iterator::cloned', 'std::iter::Iterator::by_ref', 'std::ops::Deref::deref', 'std::vec::Vec::<T, A>::as_slice',
                       'std::iter::Iterator::map', 'std::iter::Iterator::enumerate', 'std::iter::Iterator::rev', 'std::iter::Iterator::inspect',
                       'std::iter::Iterator::peekable'):
                return self.iter_len(x['args'][0], depth + 1)
            if cal in ('std::iter::Iterator::zip', 'std::iter::zip') and len(x['args']) == 2:
                a, b = self.iter_len(x['args'][0], depth + 1), self.iter_len(x['args'][1], depth + 1)
                if a is not None and a == b:
                    return a
                if a is not None and b is not None:
                    if self.prove_le(a, b, bi):
                        return a
                    if self.prove_le(b, a, bi):
                        return b
                return None
            if cal in ('core::slice::<impl [T]>::chunks_exact',) and len(x['args']) == 2:
                return None
        return None

    def slice_origin(self, d, depth=0):
        """(root descriptor, start, end) of a slice value inside the container it was cut from, through any nesting of `[a..b]`, `get(a..b)`,
        `split_at(k)` / `split_first()` pieces and same-length copies; positions are terms relative to the root."""
        if d is None or depth > 12:
            return None
        k = d[0]
        if k == 'cont':
            return (d, (None, 0), self.len_of_desc(d))
        if k == 'same':
            return self.slice_origin(d[1], depth + 1)
        if k == 'sub':
            _, base, rng, l = d
            o = self.slice_origin(base, depth + 1)
            if o is None:
                return None
            root, s0, e0 = o
            rk, st, en, _ = rng
            if rk == 'range':
                return (root, self._tsum(s0, st), self._tsum(s0, en))
            if rk == 'from':
                return (root, self._tsum(s0, st), e0)
            if rk == 'to':
                return (root, s0, self._tsum(s0, en))
            if rk == 'full':
                return o
            return None
        if k == 'callfield':
            _, l, t, path, ty = d
            cal = t.get('callee') or ''
            if cal.startswith('core::slice::<impl [T]>::split_') and t['args'] and t['args'][0]['k'] in ('copy', 'move') and len(path) == 1:
                o = self.slice_origin(self.desc_place(t['args'][0]['pl']), depth + 1)
                if o is None:
                    return None
                root, s0, e0 = o
                short = cal.split('::')[-1]
                if short in ('split_first', 'split_first_mut') and path == ('1',):
                    return (root, self._tsum(s0, (None, 1)), e0)
                if short in ('split_last', 'split_last_mut') and path == ('1',):
                    return (root, s0, tadd(e0, -1) if e0 is not None else None)
                if short in ('split_at', 'split_at_mut', 'split_at_checked') and len(t['args']) == 2:
                    kt = self.term_op(t['args'][1])
                    if path == ('0',):
                        return (root, s0, self._tsum(s0, kt))
                    if path == ('1',):
                        return (root, self._tsum(s0, kt), e0)
            # a local helper that hands back a piece of one of its arguments (`fn split(&self, L) -> (Q1, &self.values[1..])`)
            from flow import local_target
            tgt = local_target(self.za.eng, t)
            if tgt is not None and tgt != self.body.path and depth < 6:
                summ = self.za.summary(tgt)
                rs = ((summ or {}).get('retslice') or {}).get(tuple(p_ for p_ in path if not str(p_).startswith('__')))
                if rs is not None:
                    kparam, rpath, st, en = rs
                    if kparam - 1 < len(t['args']) and t['args'][kparam - 1]['k'] in ('copy', 'move'):
                        ad = self.desc_place(t['args'][kparam - 1]['pl'])
                        if rpath:
                            if ad[0] == 'cont':
                                ad = ('cont', ad[1], ad[2] + tuple(rpath), '')
                            elif ad[0] == 'call':
                                ad = ('callfield', ad[1], ad[2], tuple(rpath), '')
                            elif ad[0] == 'callfield':
                                ad = ('callfield', ad[1], ad[2], ad[3] + tuple(rpath), '')
                            else:
                                ad = None
                        o = self.slice_origin(ad, depth + 1) if ad is not None else None
                        st2 = self.za.subst(self, t, st, tgt=tgt)
                        if o is not None and st2 is not None:
                            root, s0, e0 = o
                            return (root, self._tsum(s0, st2), None)
            return (d, (None, 0), self.len_of_desc(d))
        if k == 'call':
            return (d, (None, 0), self.len_of_desc(d))
        return None

    @staticmethod
    def _tsum(a, b):
        """sum of two terms when at most one of them is symbolic"""
        if a is None or b is None:
            return None
        if a[0] is None:
            return (b[0], a[1] + b[1])
        if b[0] is None:
            return (a[0], a[1] + b[1])
        return None

    def elem_sym_of_desc(self, d):
        if d is None:
            return None
        if d[0] == 'rangeiter':
            # every value a range `a..b` yields is below b (no lower bound is recorded: it would make an empty range look non-empty)
            es = 'elem:range%d' % d[1]
            if es not in self.sym_bound and d[3] is not None:
                self.global_facts.append((None, (es, 1), d[3]))
                self.sym_bound[es] = max(0, min(UMAX, (self.sym_ub(d[3][0]) if d[3][0] is not None else 0) + d[3][1] - 1))
                self._fact_cache.clear()
            return es
        t = self.len_of_desc(d)
        if t is not None and t[0] is not None and t[0].startswith('len:') and t[1] == 0:
            return 'elem:' + t[0][4:]
        return None

    def elem_sym_of_iter(self, op):
        return self.elem_sym_of_desc(self.iter_container(op))

    def closure_predicate(self, cpath, caps, elem_sym):
        """the closure `|e| e OP bound` as (op, a, b, neg) in THIS body's terms, with e replaced by elem_sym"""
        czf = self.za.zf(cpath)
        r = czf._trace_bool({'l': 0}, 0)
        if r is None or r[0] == 'FACTS':
            return None
        op, a, b, neg = r

        def tr(t):
            if t is None:
                return None
            if t[0] is None:
                return t
            if t[0] == 'p2':
                return (elem_sym, t[1])
            if t[0].startswith('cap') and t[0][3:].isdigit() and int(t[0][3:]) < len(caps):
                return tadd(self.term_op(caps[int(t[0][3:])]), t[1])
            return None
        a2, b2 = tr(a), tr(b)
        if a2 is None or b2 is None:
            return None
        return (op, a2, b2, neg)

    def closure_predicate_facts(self, cpath, caps, elem_sym):
        """(facts when the closure's boolean is true, facts when it is false) in THIS body's terms, the closure's argument replaced by elem_sym;
        covers predicates that are one comparison and those traced as sets of facts (`(0..L).contains(i)`, `a && b`)"""
        czf = self.za.zf(cpath)
        r = czf._trace_bool({'l': 0}, 0)
        if r is None:
            return None
        if r[0] != 'FACTS':
            pr = self.closure_predicate(cpath, caps, elem_sym)
            if pr is None:
                return None
            op, a, b, neg = pr
            tf, ff = self._cmp_facts(op, a, b)
            return (ff, tf) if neg else (tf, ff)

        def tr(t):
            if t is None:
                return None
            if t[0] is None:
                return t
            if t[0] == 'p2':
                return (elem_sym, t[1])
            if t[0].startswith('cap') and t[0][3:].isdigit() and int(t[0][3:]) < len(caps):
                return tadd(self.term_op(caps[int(t[0][3:])]), t[1])
            return None

        def trl(fs):
            out = []
            for (t1, t2) in fs:
                a, b = tr(t1), tr(t2)
                if a is None or b is None:
                    return None
                out.append((a, b))
            return out
        tf, ff = trl(r[1]), trl(r[2])
        if tf is None or ff is None:
            return None
        return (tf, ff)

    def unstable(self, t):
        return t is not None and t[0] is not None and t[0].startswith('m')

    def reaching_defs(self, l, bi, si=None):
        """definitions (kind, block, stmt/term) of local l that may reach statement si of block bi (si None: the terminator);
        whole-local definitions only - a partial write makes the answer None."""
        body = self.body
        ds = self.fd.defs.get(l, [])
        if any(d[2].get('dst', {}).get('p') for d in ds):
            return None
        # last definition inside the block before the use
        blk = body.blocks[bi]
        last = None
        for k, st in enumerate(blk['stmts']):
            if si is not None and k >= si:
                break
            if st['k'] == 'assign' and st['dst']['l'] == l:
                last = ('assign', bi, st)
        if last is not None:
            return [last]
        out_def = {}       # block -> the definition live at its end (if the block defines l)
        for d in ds:
            kind, b, x = d
            if kind == 'assign':
                out_def[b] = d           # statements are visited in order: the last one wins
        call_def = {}      # a call defines l on the edge to its return block
        for d in ds:
            if d[0] == 'call':
                call_def[d[1]] = d
        res, seen, st = [], set(), [(p_, bi) for p_ in body.pred[bi]]
        if bi == 0:
            res.append(('entry', 0, None))
        while st:
            b, frm = st.pop()
            if (b, frm) in seen:
                continue
            seen.add((b, frm))
            if b in call_def and body.blocks[b]['term'].get('t') == frm:
                res.append(call_def[b])
                continue
            if b in out_def:
                res.append(out_def[b])
                continue
            if b == 0:
                res.append(('entry', 0, None))
            st.extend((p_, b) for p_ in body.pred[b])
        uniq = []
        for r in res:
            if not any(r[2] is u[2] and r[0] == u[0] for u in uniq):
                uniq.append(r)
        return uniq

    def single_def(self, l):
        ds = self.fd.defs.get(l, [])
        if len(ds) > 1:
            # a write *through* a reference held in l is not a definition of l
            ds = [d for d in ds if not any(q['k'] == 'deref' for q in (d[2].get('dst', {}).get('p') or []))]
        if len(ds) == 1 and not self.fd.is_param(l):
            return ds[0]
        return None

    def term_op(self, op):
        if op['k'] == 'const':
            if 'int' in op:
                return (None, int(op['int']))
            if 'pint' in op:
                return (None, int(op['pint']))       # reference to a promoted integer literal
            if 'uneval' in op:
                v = self.za.named_const(op)
                if v is not None:
                    return (None, v)
                return ('N:' + op['uneval'].split('::')[-1], 0)
            d = op.get('disp', '')
            if d.startswith('const '):
                d = d[6:]
            if d.isidentifier():
                if d in self.cg:
                    return (None, self.cg[d])
                return ('N:' + d, 0)
            return None
        pl = op['pl']
        if not pl.get('p'):
            return self.term_local(pl['l'])
        # tuple field of a checked operation
        ps = pl['p']
        if all(p['k'] == 'deref' for p in ps):
            return self.term_local(pl['l'])       # a reference to an integer: same value
        # element of an integer container read by index: a value of its own, never above what bounds every element
        idx = [p for p in ps if p['k'] == 'index']
        if len(idx) == 1 and all(p['k'] in ('deref', 'index') for p in ps):
            cty = self.body.local_ty(pl['l']).replace('&mut ', '').lstrip('&').strip()
            if cty.startswith(('[usize', 'std::vec::Vec<usize', '[u64', 'std::vec::Vec<u64', '[u32', 'std::vec::Vec<u32')):
                key = ('elemread', pl['l'], idx[0]['l'])
                if key not in self._term:
                    res = ('v%dx%d' % (pl['l'], idx[0]['l']), 0)
                    self._term[key] = res
                    es = self.elem_sym_of_desc(self.desc_local(pl['l']))
                    if es is not None:
                        self.global_facts.append((None, res, (es, 0)))
                        self.elem_of[res[0]] = es
                return self._term[key]
        # captured variable of a closure: (*(_1.k)) or (_1.k)
        if self.body.kind == 'Closure' and pl['l'] == 1 and ps and ps[0]['k'] in ('field', 'deref'):
            fs = [p for p in ps if p['k'] == 'field']
            if len(fs) == 1 and all(p['k'] in ('field', 'deref') for p in ps) and fs[0]['n'].isdigit():
                return ('cap%s' % fs[0]['n'], 0)
        # component of a tuple element handed to a closure by zip / enumerate: (_k.n) or (*(_k.n))
        if self.body.kind == 'Closure' and pl['l'] >= 2 and self.fd.is_param(pl['l']):
            fs = [p for p in ps if p['k'] == 'field']
            if len(fs) == 1 and all(p['k'] in ('field', 'deref') for p in ps) and fs[0]['n'].isdigit() \
                    and str(fs[0].get('ty', '')).lstrip('&').strip() in ('usize', 'u64', 'u32'):
                return ('p%d.%s' % (pl['l'], fs[0]['n']), 0)
        if len(ps) == 1 and ps[0]['k'] == 'field' and ps[0]['n'] == '0':
            d = self.single_def(pl['l'])
            if d and d[0] == 'assign' and d[2]['rv']['k'] == 'binop':
                return self._binop_term(pl['l'], d[2]['rv'], d[1])
        # component of a tuple built in this body: `match (&a, &b) { (l, r) => .. }` of assert_eq!
        nd = [p for p in ps if p['k'] != 'deref']
        if len(nd) == 1 and nd[0]['k'] == 'field' and nd[0]['n'].isdigit():
            d = self.single_def(pl['l'])
            if d and d[0] == 'assign' and d[2]['rv']['k'] == 'agg' and d[2]['rv'].get('ak') == 'tuple' and int(nd[0]['n']) < len(d[2]['rv']['ops']):
                o = d[2]['rv']['ops'][int(nd[0]['n'])]
                oty = self.body.local_ty(o['pl']['l']) if o['k'] in ('copy', 'move') and not o['pl'].get('p') else ''
                if oty.lstrip('&').strip() in ('usize', 'u64', 'u32', 'u16', 'u8'):
                    return self.term_op(o)
        # an integer a local callee handed back inside Ok / Some, alone or as a member of a tuple
        rc = self._ret_component(pl)
        if rc is not None:
            r = self._ret_comp_term(*rc)
            if r is not None:
                return r
        # payload of Option / ControlFlow
        if all(p['k'] in ('downcast', 'field') for p in ps) and any(p['k'] == 'downcast' for p in ps):
            return self._payload_term(pl)
        return None

    def _lin_ub(self, call, tgt, cargs, lin, c0):
        """constant upper bound of a sum of callee parameter terms (positive coefficients), from the bounds of the arguments here"""
        tot = c0
        for sy, k in lin.items():
            if k < 0:
                continue      # subtracting something that is at least 0
            tt = self.za.subst(self, call, (sy, 0), tgt=tgt, args=cargs)
            if tt is None:
                return None
            u = tt[1] if tt[0] is None else self.sym_ub(tt[0]) + tt[1]
            if u >= UMAX:
                return None
            tot += k * u
        return tot if 0 <= tot < UMAX else None

    def _ret_component(self, pl, depth=0):
        """(payload local, call block, call, member path) when the place is (a member of) the success payload of a call to a local function:
        `((_r as Continue).0).1`, or `_t.1` with `_t = move ((_r as Continue).0)`"""
        if depth > 4:
            return None
        ps = [p for p in pl.get('p', []) if p['k'] != 'deref']
        if any(p['k'] not in ('downcast', 'field') for p in ps):
            return None
        if any(p['k'] == 'downcast' for p in ps):
            if ps[0]['k'] != 'downcast' or ps[0]['n'] not in ('Some', 'Continue', 'Ok') or len(ps) < 2 or ps[1]['k'] != 'field' or ps[1]['n'] != '0':
                return None
            rest = ps[2:]
            if any(p['k'] != 'field' or not str(p['n']).isdigit() for p in rest):
                return None
            o = self._origin_call(pl['l'])
            if o is None:
                return None
            from flow import local_target
            tgt = local_target(self.za.eng, o[1])
            if tgt is None or tgt == self.body.path:
                return None
            return (pl['l'], o[0], o[1], tuple(str(p['n']) for p in rest))
        if (not ps and depth == 0) or any(not str(p['n']).isdigit() for p in ps):
            return None
        d = self.single_def(pl['l'])
        if d and d[0] == 'assign' and not d[2]['dst'].get('p') and d[2]['rv']['k'] == 'use' and d[2]['rv']['op']['k'] in ('copy', 'move'):
            inner = self._ret_component(d[2]['rv']['op']['pl'], depth + 1)
            if inner is not None:
                return (inner[0], inner[1], inner[2], inner[3] + tuple(str(p['n']) for p in ps))
        return None

    def _ret_comp_term(self, pl_l, bi, call, path):
        from flow import local_target
        key = ('retcomp', pl_l, path)
        if key in self._term:
            return self._term[key]
        self._term[key] = None
        tgt = local_target(self.za.eng, call)
        summ = self.za.summary(tgt)
        rr = (summ or {}).get('retrel') or {}
        if path not in rr:
            return None
        ent = rr[path]
        czf = self.za.zf(tgt)
        # the member is a parameter term of the callee: the same term here
        if ent['sym'] is None:
            res = self.za.subst(self, call, ent['term'], tgt)
            if res is not None and self.unstable(res):
                res = None
            self._term[key] = res
            return res

        def mine(pth):
            return 'r%d_%s' % (pl_l, '_'.join(pth))
        res = (mine(path), ent['term'][1])
        self._term[key] = res
        self.za.retexpr[(self.body.path, res[0])] = (tgt, call, (ent['term'][0], 0))
        lf = linear_form(czf, (ent['term'][0], 0))
        if lf is not None and lf[0] and all(self.za._param_term_ok(czf, (sy, 0)) for sy in lf[0]):
            ub = self._lin_ub(call, tgt, None, lf[0], lf[1])
            if ub is not None:
                self.sym_bound[res[0]] = ub
        if ('retcomp-facts', pl_l) not in self._term:
            self._term[('retcomp-facts', pl_l)] = True
            byname = {e['sym']: p_ for p_, e in rr.items() if e['sym'] is not None}

            def tr(t):
                if t[0] is not None and t[0].startswith('ret:'):
                    p_ = byname.get(t[0])
                    return (mine(p_), t[1]) if p_ is not None else None
                r2 = self.za.subst(self, call, t, tgt)
                return None if r2 is None or self.unstable(r2) else r2
            for (t1, t2) in ent['facts']:
                a, b = tr(t1), tr(t2)
                if a is not None and b is not None:
                    self.global_facts.append((('payload', pl_l), a, b))
            self._fact_cache = {k: v for k, v in self._fact_cache.items() if isinstance(k, tuple) and k and k[0] == 'pb'}
        return res

    def _opaque(self, l):
        return ('v%d' % l, 0)

    def _rel_ub_multi(self, l, sym):
        """a local assigned on several paths never exceeds T when every definition either copies T (one stable term) or computes a value
        that is not above the local's own current value (`M = M.checked_sub(k)?`, `M = M / k`, `M -= k`)."""
        base = None
        for kind, bi, x in self.fd.defs.get(l, []):
            if kind != 'assign' or x['dst'].get('p'):
                return
            rv = x['rv']
            if rv['k'] == 'use':
                t = self.term_op(rv['op'])
            elif rv['k'] == 'binop' and rv['op'].replace('WithOverflow', '').replace('Unchecked', '') in ('Div', 'Rem', 'Sub'):
                t = self._binop_term(l, rv, bi)
            else:
                return
            if t is None:
                return
            # follow `never exceeds` links: quotient / difference / checked payload of the local itself
            cur, hops = t, 0
            while cur is not None and cur[0] is not None and cur[0] != sym and cur[0] in self.sym_le and hops < 6:
                nx = self.sym_le[cur[0]]
                cur = (nx[0], nx[1] + cur[1]) if cur[1] <= 0 else None
                hops += 1
            if cur is not None and cur[0] == sym and cur[1] <= 0:
                continue                # not above the current value
            if t[0] is not None and (t[0].startswith('m') and t[0][1:].isdigit() or self.unstable(t)):
                return
            if base is None:
                base = t
            elif base != t:
                return
        if base is not None and base[0] is not None:
            self.sym_le[sym] = base
            self.inv_facts.append(((sym, 0), base))       # holds for every value the local ever takes
            self._fact_cache = {k: v for k, v in self._fact_cache.items() if isinstance(k, tuple) and k and k[0] == 'pb'}

    def ubound_local(self, l):
        """flow-insensitive upper bound of a local assigned on several paths: max over its definitions."""
        if l in self._ub_inprog:
            return 0
        self._ub_inprog.add(l)
        best = 0
        for kind, bi, x in self.fd.defs.get(l, []):
            u = UMAX
            if kind == 'assign' and not x['dst'].get('p'):
                rv = x['rv']
                if rv['k'] == 'use':
                    t = self.term_op(rv['op'])
                    if t is not None:
                        u = min(UMAX, self.sym_ub(t[0]) + t[1]) if t[0] is not None else t[1]
                    elif rv['op']['k'] in ('copy', 'move'):
                        # payload of checked arithmetic on the same local
                        o = self._origin_call(rv['op']['pl']['l'])
                        if o and (o[1].get('callee') or '') in ('std::option::Option::<T>::map', 'std::result::Result::<T, E>::map') and rv['op']['pl'].get('p'):
                            pt = self._payload_term(rv['op']['pl'])
                            if pt is not None:
                                u = min(UMAX, self.sym_ub(pt[0]) + pt[1]) if pt[0] is not None else pt[1]
                        if o and (o[1].get('callee') or '').endswith(('::checked_sub', '::checked_div', '::checked_rem', '::saturating_sub')):
                            a = self.term_op(o[1]['args'][0])
                            if a is not None:
                                u = min(UMAX, self.sym_ub(a[0]) + a[1]) if a[0] is not None else a[1]
                elif rv['k'] == 'binop' and rv['op'].replace('WithOverflow', '').replace('Unchecked', '') in ('Div', 'Rem', 'Sub', 'Add', 'Mul'):
                    t = self._binop_term(l, rv, bi)
                    if t is not None:
                        u = min(UMAX, self.sym_ub(t[0]) + t[1]) if t[0] is not None else t[1]
            elif kind == 'call' and not x['dst'].get('p'):
                cal = x.get('callee') or ''
                if cal in LEN_CALLS:
                    u = IMAX
            best = max(best, u)
        self._ub_inprog.discard(l)
        return best

    def term_local(self, l):
        if l in self._term:
            return self._term[l]
        self._term[l] = None
        res = None
        body, fd = self.body, self.fd
        ty = body.local_ty(l)
        if fd.is_param(l):
            if l in self.overrides:
                res = self.overrides[l]
            elif ty.lstrip('&').strip() in ('usize', 'u64', 'u32', 'u16', 'u8'):
                res = ('p%d' % l, 0)       # an integer, or a shared reference to one (same value)
        else:
            d = self.single_def(l)
            if d is None and ty in ('usize', 'u64', 'u32', 'u16', 'u8'):
                # assigned on several paths: only a flow-insensitive upper bound is kept (no relational facts)
                sym = 'm%d' % l
                self._term[l] = (sym, 0)
                self.sym_bound[sym] = 0
                for _ in range(6):
                    nb = self.ubound_local(l)
                    # payload terms are memoised; recompute them against the new bound
                    for k in [k for k in self._term if isinstance(k, tuple) and k[0] == 'payload']:
                        del self._term[k]
                    if nb == self.sym_bound[sym]:
                        break
                    self.sym_bound[sym] = nb
                else:
                    self.sym_bound[sym] = UMAX
                self._rel_ub_multi(l, sym)
                return (sym, 0)
            if d is not None:
                kind, bi, x = d
                if kind == 'assign' and not x['dst'].get('p'):
                    rv = x['rv']
                    if rv['k'] == 'use':
                        res = self.term_op(rv['op'])
                    elif rv['k'] == 'binop':
                        res = self._binop_term(l, rv, bi)
                    elif rv['k'] == 'unop' and rv['op'] == 'PtrMetadata' and rv['a']['k'] in ('copy', 'move'):
                        res = self.len_of_place(rv['a']['pl'], bi)
                    elif rv['k'] == 'ref' and all(q['k'] == 'deref' for q in rv['pl'].get('p', [])) and ty.lstrip('&').strip() in ('usize', 'u64', 'u32', 'u16', 'u8'):
                        res = self.term_local(rv['pl']['l'])
                    elif rv['k'] == 'cast' and rv['ck'] == 'IntToInt':
                        src = self.term_op(rv['op'])
                        if src is not None and rv['ty'] in ('usize', 'u64') :
                            res = src
                elif kind == 'call' and not x['dst'].get('p'):
                    cal = x.get('callee') or ''
                    if cal in LEN_CALLS and x['args'][0]['k'] in ('copy', 'move'):
                        res = self.len_of_place(x['args'][0]['pl'], bi)
                        if res is None:
                            res = self._len_before_mutation(x['args'][0]['pl'], bi)
                        if res is None:
                            res = ('lenat%d' % l, 0)
                            self.sym_bound[res[0]] = IMAX // elem_size_of(self.body.local_ty(x['args'][0]['pl']['l']))
                    elif cal in PASS_CALLS and x['args'] and x['args'][0]['k'] in ('copy', 'move'):
                        res = None
                    elif cal.endswith('::unwrap_or') and ty == 'usize':
                        res = None
                    elif cal in INDEX_CALLS and len(x['args']) == 2 and x['args'][0]['k'] in ('copy', 'move') and ty.lstrip('&').strip() in ('usize', 'u64', 'u32'):
                        # `&c[j]` on an integer container: an element of c
                        res = ('v%dx' % l, 0)
                        es = self.elem_sym_of_desc(self.desc_place(x['args'][0]['pl']))
                        if es is not None:
                            self.global_facts.append((None, res, (es, 0)))
                            self.elem_of[res[0]] = es
                    elif ty in ('usize', 'u64', 'u32') and cal in ('std::convert::From::from', 'std::convert::Into::into') and len(x['args']) == 1 \
                            and x['args'][0]['k'] in ('copy', 'move') and self.body.local_ty(x['args'][0]['pl']['l']) == 'bool':
                        res = self._opaque(l)                # usize::from(bool) is 0 or 1
                        self.sym_bound[res[0]] = 1
                        self.global_facts.append((None, res, (None, 1)))
                    elif ty in ('usize', 'u64', 'u32') and cal in ('std::convert::From::from', 'std::convert::Into::into') and len(x['args']) == 1 \
                            and (x['args'][0]['k'] == 'const' or self.body.local_ty(x['args'][0]['pl']['l']).lstrip('&').strip() in ('u8', 'u16', 'u32', 'usize', 'u64')):
                        res = self.term_op(x['args'][0])            # a widening conversion (`usize::from(u16::MAX)`): the same number
                    elif ty in ('usize', 'u64', 'u32'):
                        ub = self._callee_retval(x)
                        if ub:
                            res = self._opaque(l)
                            for T in ub:
                                self.global_facts.append((bi, res, T))
                            self.sym_le[res[0]] = ub[0]
                if res is None and ty in ('usize', 'u64', 'u32', 'u16', 'u8', 'bool') and ty != 'bool':
                    res = self._opaque(l)
        self._term[l] = res
        return res

    def _binop_term(self, l, rv, bi):
        op = rv['op']
        a, b = self.term_op(rv['a']), self.term_op(rv['b'])
        base = op.replace('WithOverflow', '').replace('Unchecked', '')
        if base == 'Add':
            if a is not None and b is not None:
                if b[0] is None:
                    return (a[0], a[1] + b[1])
                if a[0] is None:
                    return (b[0], a[1] + b[1])
            r = self._opaque(l)
            # (no overflow after the assert) both operands are <= the sum
            if a is not None:
                self.global_facts.append((bi, a, r))
            if b is not None:
                self.global_facts.append((bi, b, r))
            if a is not None and b is not None:
                ub = self.sym_ub(a[0]) + a[1] + self.sym_ub(b[0]) + b[1]
                if ub <= UMAX:
                    self.global_facts.append((None, r, (None, ub)))
                    self.sym_bound[r[0]] = ub
            self.za.sums.setdefault((self.body.path, l), (a, b))
            return r
        if base == 'Sub':
            t = tsub(a, b)
            if t is not None:
                return t
            r = self._opaque(l)
            if a is not None:
                self.global_facts.append((bi, r, a))
                self.sym_le[r[0]] = a
            if a is not None and b is not None:
                self.za.diffs.setdefault((self.body.path, r[0]), (a, b))
            return r
        if base == 'Mul' and a is not None and b is not None and a[0] is None and b[0] is None:
            return (None, a[1] * b[1])
        if base in ('Div', 'Rem') and a is not None and b is not None and b[0] is None and b[1] >= 1:
            if a[0] is None:
                return (None, a[1] // b[1] if base == 'Div' else a[1] % b[1])
            r = self._opaque(l)
            if base == 'Div':
                self.scaled[r[0]] = ('div', a, b[1], bi)
            ub = (self.sym_ub(a[0]) + a[1]) // b[1] if base == 'Div' else b[1] - 1
            if 0 <= ub <= UMAX:
                self.global_facts.append((None, r, (None, ub)))
                self.sym_bound[r[0]] = ub
            self.global_facts.append((bi, r, a))          # x / c <= x,  x % c <= x
            self.sym_le[r[0]] = a
            return r
        if base in ('Div', 'Rem') and a is not None:
            # divisor not a known constant (e.g. a constant of another crate): still x / d <= x and x % d <= x for d >= 1
            r = self._opaque(l)
            self.global_facts.append((bi, r, a))
            self.sym_le[r[0]] = a
            return r
        if base == 'Mul' and a is not None and b is not None and (a[0] is None) != (b[0] is None):
            # constant * symbolic: an opaque value with the scaled upper bound of the symbolic factor
            c, x = (a[1], b) if a[0] is None else (b[1], a)
            r = self._opaque(l)
            if c >= 1:
                self.scaled[r[0]] = ('mul', x, c, bi)
            ub = c * (self.sym_ub(x[0]) + x[1])
            if 0 <= ub <= UMAX:
                self.global_facts.append((None, r, (None, ub)))
                self.sym_bound[r[0]] = ub
            if c >= 1:
                self.global_facts.append((bi, x, r))      # x <= c * x
            return r
        return None

    def _payload_term(self, pl):
        """(X as Some).0 / (X as Continue).0 where X comes from checked_sub / checked_add / Range::next ..."""
        l = pl['l']
        variant = [p['n'] for p in pl['p'] if p['k'] == 'downcast']
        origin = self._origin_call(l)
        if origin is None:
            return None
        bi, t = origin
        cal = t.get('callee') or ''
        # component of the element of a zipped iteration: `for (a, b) in xs.iter().zip(ys)`
        tup = [p for p in pl['p'] if p['k'] == 'field' and not str(p.get('adt', '')).startswith(('std::option', 'core::option')) and p['n'].isdigit()]
        if cal == 'std::iter::Iterator::next' and tup and t['args']:
            # `for (i, x) in items.enumerate()`: the first member of the item is a position, below the number of items
            en = self._enumerate_source(t['args'][0])
            if en is not None and int(tup[0]['n']) == 0 and len(tup) == 1:
                key = ('payload', l, 'enum0')
                if key in self._term:
                    return self._term[key]
                res = ('v%dn' % l, 0)
                ln = self.iter_len(en)
                if ln is not None:
                    self.global_facts.append((('payload', l), tadd(res, 1), ln))
                self._term[key] = res
                return res
            comps = self.iter_components(t['args'][0])
            n = int(tup[0]['n'])
            if comps and len(comps) > 1 and n < len(comps):
                key = ('payload', l, n)
                if key in self._term:
                    return self._term[key]
                res = None
                es = self.elem_sym_of_desc(comps[n]) if comps[n] is not None else None
                if es is not None:
                    res = ('v%de%d' % (l, n), 0)
                    self.global_facts.append((('payload', l), res, (es, 0)))
                    self.elem_of[res[0]] = es
                self._term[key] = res
                return res
        key = ('payload', l)
        if key in self._term:
            return self._term[key]
        res = None
        # `x.checked_sub(1).and_then(|y| y.checked_sub(L))`: a checked operation on the payload of another one, inside a closure
        chained = None
        if variant and variant[0] in ('Some', 'Continue', 'Ok') and cal in ('std::option::Option::<T>::and_then',) and len(t['args']) == 2 \
                and t['args'][0]['k'] in ('copy', 'move') and not t['args'][0]['pl'].get('p') and t['args'][1]['k'] in ('copy', 'move'):
            ci = self.fd._closure_info(t['args'][1]['pl']['l'])
            inner = self._payload_term({'l': t['args'][0]['pl']['l'], 'p': [{'k': 'downcast', 'v': 1, 'n': 'Some'}, {'k': 'field', 'n': '0', 'adt': 'std::option::Option::Some'}]})
            if ci is not None and inner is not None and ci[0] in self.za.prog.bodies:
                czf = self.za.zf(ci[0])
                d0 = czf.single_def(0)
                if d0 and d0[0] == 'call' and (d0[2].get('callee') or '').endswith(('::checked_sub', '::checked_add', '::checked_div', '::checked_rem')) \
                        and len(d0[2]['args']) == 2:
                    def tr(o):
                        tt = czf.term_op(o)
                        if tt is None:
                            return None
                        if tt[0] == 'p2':
                            return (inner[0], inner[1] + tt[1])
                        if tt[0] is None:
                            return tt
                        if tt[0].startswith('cap') and tt[0][3:].isdigit() and int(tt[0][3:]) < len(ci[1]):
                            return tadd(self.term_op(ci[1][int(tt[0][3:])]), tt[1])
                        return None
                    chained = ((d0[2].get('callee') or '').split('::')[-1], tr(d0[2]['args'][0]), tr(d0[2]['args'][1]))
        # `opt.map(|x| x / c)` (also `- c`, `% c`, `>> c`, or x itself): the payload is not above the payload of `opt`
        if variant and variant[0] in ('Some', 'Continue', 'Ok') and chained is None and cal in ('std::option::Option::<T>::map', 'std::result::Result::<T, E>::map') \
                and len(t['args']) == 2 and t['args'][0]['k'] in ('copy', 'move') and not t['args'][0]['pl'].get('p') and t['args'][1]['k'] in ('copy', 'move'):
            ci = self.fd._closure_info(t['args'][1]['pl']['l'])
            inner = self._payload_term({'l': t['args'][0]['pl']['l'], 'p': [{'k': 'downcast', 'v': 1, 'n': 'Some'}, {'k': 'field', 'n': '0', 'adt': 'std::option::Option::Some'}]})
            if ci is not None and inner is not None and ci[0] in self.za.prog.bodies:
                cb = self.za.prog.bodies[ci[0]]
                shrinking = None

                def cdefs(x):
                    return [st for _b, st in cb.stmts() if st['k'] == 'assign' and st['dst']['l'] == x and not st['dst'].get('p')]

                def is_item(o, depth=0):
                    """the operand is the closure's argument (through plain copies)"""
                    if o.get('k') not in ('copy', 'move') or o['pl'].get('p') or depth > 3:
                        return False
                    if o['pl']['l'] == 2:
                        return True
                    dd = cdefs(o['pl']['l'])
                    return len(dd) == 1 and dd[0]['rv']['k'] == 'use' and is_item(dd[0]['rv']['op'], depth + 1)

                def shrinks(x, depth=0):
                    dd = cdefs(x)
                    if len(dd) != 1 or depth > 3:
                        return False
                    rv = dd[0]['rv']
                    if rv['k'] == 'use' and rv['op']['k'] in ('copy', 'move'):
                        if is_item(rv['op']):
                            return True
                        # `(x - c).0` of the checked form the compiler emits
                        return all(q['k'] == 'field' for q in rv['op']['pl'].get('p', [])) and shrinks(rv['op']['pl']['l'], depth + 1)
                    return rv['k'] == 'binop' and rv['op'].replace('WithOverflow', '').replace('Unchecked', '') in ('Div', 'Rem', 'Sub', 'Shr') and is_item(rv['a'])
                shrinking = shrinks(0)
                if shrinking:
                    res = ('v%dp' % l, 0)
                    self.global_facts.append((('payload', l), res, inner))
                    self.sym_le[res[0]] = inner
                    self._term[key] = res
                    return res
        if chained is not None:
            cal = '::' + chained[0]
        if variant and variant[0] in ('Some', 'Continue', 'Ok') and chained is None:
            ub = self._callee_retval(t)
            if ub:
                res = ('v%dp' % l, 0)
                for T in ub:
                    self.global_facts.append((('payload', l), res, T))
                self.sym_le[res[0]] = ub[0]
                self._term[key] = res
                return res
        if variant and variant[0] in ('Some', 'Continue', 'Ok'):
            if cal.endswith('::checked_sub'):
                a, b = (chained[1], chained[2]) if chained is not None else (self.term_op(t['args'][0]), self.term_op(t['args'][1]))
                res = tsub(a, b)
                if a is not None and b is not None:
                    self.global_facts.append((('payload', l), b, a))
                if res is None:
                    res = ('v%dp' % l, 0)
                    if a is not None:
                        self.global_facts.append((('payload', l), res, a))
                        self.sym_le[res[0]] = a
                    if a is not None and b is not None:
                        self.za.diffs.setdefault((self.body.path, res[0]), (a, b))
            elif cal.endswith('::checked_add'):
                a, b = (chained[1], chained[2]) if chained is not None else (self.term_op(t['args'][0]), self.term_op(t['args'][1]))
                if a is not None and b is not None and (a[0] is None or b[0] is None):
                    res = (a[0] or b[0], a[1] + b[1])
                else:
                    res = ('v%dp' % l, 0)
                    for o in (a, b):
                        if o is not None:
                            self.global_facts.append((('payload', l), o, res))
            elif cal.endswith('::checked_div') or cal.endswith('::checked_rem'):
                a = chained[1] if chained is not None else self.term_op(t['args'][0])
                res = ('v%dp' % l, 0)
                if a is not None:
                    self.global_facts.append((('payload', l), res, a))
                    self.sym_le[res[0]] = a
            elif cal == 'std::iter::Iterator::next':
                rng = self._range_of_iter(t['args'][0])
                res = ('i%d' % l, 0)
                if rng is not None:
                    start, end = rng
                    if start is not None:
                        self.global_facts.append((('payload', l), start, res))
                    if end is not None:
                        self.global_facts.append((('payload', l), tadd(res, 1), end))
                else:
                    sl = self.za._slice_of_iter(self, t['args'][0])
                    res = None
                    if sl is not None:
                        # the loop body runs only if the slice is non-empty
                        self.global_facts.append((('payload', l), (None, 1), sl))
                    es = self.elem_sym_of_iter(t['args'][0])
                    if es is not None:
                        # the element handed out is one of the container's elements: bounded by whatever bounds all of them
                        res = ('v%de' % l, 0)
                        self.global_facts.append((('payload', l), res, (es, 0)))
                        self.elem_of[res[0]] = es
        self._term[key] = res
        return res

    def _callee_retval(self, t):
        """upper bounds (caller terms) of the integer a local callee returns (plain, or as the payload of Ok / Some)"""
        from flow import local_target
        tgt = local_target(self.za.eng, t)
        if tgt is None or tgt == self.body.path:
            return []
        summ = self.za.summary(tgt)
        out = []
        for T in (summ or {}).get('retval', []):
            b = self.za.subst(self, t, T)
            if b is not None and not self.unstable(b):
                out.append(b)
        return out

    def _origin_call(self, l, depth=0):
        """follow `?`, ok_or, map_err back to the call that produced the Option/Result held in local l."""
        if depth > 8:
            return None
        d = self.single_def(l)
        if d is None:
            return None
        kind, bi, x = d
        if kind == 'call':
            cal = x.get('callee') or ''
            if cal in ('std::ops::Try::branch', 'std::option::Option::<T>::ok_or', 'std::option::Option::<T>::ok_or_else',
                       'std::result::Result::<T, E>::map_err', 'std::option::Option::<&T>::copied', 'std::option::Option::<&T>::cloned',
                       'std::option::Option::<&mut T>::copied', 'std::option::Option::<&mut T>::cloned') \
                    and x['args'][0]['k'] in ('copy', 'move') and not x['args'][0]['pl'].get('p'):
                return self._origin_call(x['args'][0]['pl']['l'], depth + 1)
            return (bi, x)
        if kind == 'assign' and x['rv']['k'] == 'use' and x['rv']['op']['k'] in ('copy', 'move') and not x['rv']['op']['pl'].get('p'):
            return self._origin_call(x['rv']['op']['pl']['l'], depth + 1)
        return None

    def _range_of_iter(self, arg):
        """iterator operand of `next`: &mut iter, iter = into_iter(Range{start,end}) -> (start, end) terms."""
        if arg['k'] not in ('copy', 'move'):
            return None
        r, p = self.fd.resolve_place(arg['pl'])
        # iter local: defs = [into_iter result moved in]
        ds = self.fd.defs.get(r, [])
        srcs = []
        for kind, bi, x in ds:
            if kind == 'assign' and x['rv']['k'] == 'use' and x['rv']['op']['k'] in ('copy', 'move'):
                srcs.append(x['rv']['op']['pl']['l'])
            elif kind == 'call':
                srcs.append(('call', x))
        if len(srcs) != 1:
            return None
        s = srcs[0]
        call = None
        if isinstance(s, tuple):
            call = s[1]
        else:
            d = self.single_def(s)
            if d and d[0] == 'call':
                call = d[2]
        if call is None or (call.get('callee') or '') != 'std::iter::IntoIterator::into_iter':
            return None
        a0 = call['args'][0]
        if a0['k'] not in ('copy', 'move'):
            return None
        rd = self.single_def(a0['pl']['l'])
        if rd and rd[0] == 'assign' and rd[2]['rv']['k'] == 'agg' and rd[2]['rv']['name'] == 'std::ops::Range':
            ops = rd[2]['rv']['ops']
            return (self.term_op(ops[0]), self.term_op(ops[1]))
        if rd and rd[0] == 'call' and (rd[2].get('callee') or '').endswith('RangeInclusive::<Idx>::new') and len(rd[2]['args']) == 2:
            # a..=b visits a, .., b: same as a..b+1 (terms are unbounded integers, so b+1 cannot wrap here)
            return (self.term_op(rd[2]['args'][0]), tadd(self.term_op(rd[2]['args'][1]), 1))
        return None

    # ------------------------------------------------------------------ containers and their lengths
    def desc_local(self, l, depth=0):
        """slice/container descriptor of the value a local refers to."""
        if l in self._desc:
            return self._desc[l]
        self._desc[l] = ('opaque', l)
        body, fd = self.body, self.fd
        res = ('opaque', l)
        if fd.is_param(l):
            res = ('cont', l, (), body.local_ty(l))
        elif depth < 40:
            d = self.single_def(l)
            if d is None:
                res = ('cont', l, (), body.local_ty(l))  # an owned multi-assigned local (e.g. Vec being built)
            else:
                kind, bi, x = d
                if kind == 'assign' and not x['dst'].get('p'):
                    rv = x['rv']
                    src = None
                    if rv['k'] == 'use' and rv['op']['k'] in ('copy', 'move'):
                        src = rv['op']['pl']
                    elif rv['k'] in ('ref', 'rawptr'):
                        src = rv['pl']
                    elif rv['k'] == 'cast' and rv['op']['k'] in ('copy', 'move') and rv['ck'].startswith('PointerCoercion'):
                        src = rv['op']['pl']
                    if src is not None:
                        res = self.desc_place(src, depth + 1)
                        if res[0] in ('call', 'callfield') and l in self.mut_roots:
                            res = ('cont', l, (), body.local_ty(l))
                    else:
                        res = ('cont', l, (), body.local_ty(l))
                elif kind == 'call' and not x['dst'].get('p'):
                    cal = x.get('callee') or ''
                    a0 = x['args'][0] if x['args'] else None
                    if cal in DEREF_CALLS and a0 and a0['k'] in ('copy', 'move'):
                        res = self.desc_place(a0['pl'], depth + 1)
                    elif cal in SAME_LEN_CALLS and a0 and a0['k'] in ('copy', 'move'):
                        res = ('same', self.desc_place(a0['pl'], depth + 1), l)
                    elif cal in INDEX_CALLS and a0 and a0['k'] in ('copy', 'move') and len(x['args']) == 2:
                        rng = self._range_arg(x['args'][1])
                        if rng is not None:
                            res = ('sub', self.desc_place(a0['pl'], depth + 1), rng, l)
                        else:
                            res = ('elem', self.desc_place(a0['pl'], depth + 1), l)
                    elif cal in PASS_CALLS and a0 and a0['k'] in ('copy', 'move') and not a0['pl'].get('p'):
                        res = self.desc_local(a0['pl']['l'], depth + 1)
                    elif cal == 'core::slice::<impl [T]>::get' and len(x['args']) == 2:
                        rng = self._range_arg(x['args'][1])
                        if rng is not None:
                            res = ('sub', self.desc_place(a0['pl'], depth + 1), rng, l)
                    else:
                        res = ('call', l, x)
        self._desc[l] = res
        return res

    def desc_place(self, pl, depth=0):
        ps = pl.get('p', [])
        fields = [p for p in ps if p['k'] == 'field' and not p.get('adt', '').startswith(('std::option::Option', 'std::result::Result', 'std::ops::ControlFlow'))]
        if not fields:
            subs = [p for p in ps if p['k'] == 'subslice']
            if len(subs) == 1 and ps[-1] is subs[0] and all(p['k'] in ('deref', 'subslice') for p in ps):
                # rest of a slice pattern `[a, b, rest @ ..]` / `[head @ .., z]`
                sp = subs[0]
                base = self.desc_local(pl['l'], depth + 1)
                if sp['from_end'] and sp['to'] == 0:
                    return ('sub', base, ('from', (None, sp['from']), None, None), pl['l'])
                if not sp['from_end']:
                    return ('sub', base, ('range', (None, sp['from']), (None, sp['to']), None), pl['l'])
                bl = self.len_of_desc(base)
                if bl is not None:
                    return ('sub', base, ('range', (None, sp['from']), (bl[0], bl[1] - sp['to']), None), pl['l'])
            if any(p['k'] in ('index', 'cindex', 'subslice') for p in ps):
                return ('elem', self.desc_local(pl['l'], depth + 1), pl['l'])
            return self.desc_local(pl['l'], depth + 1)
        base = self.desc_local(pl['l'], depth + 1)
        ty = fields[-1].get('ty', '')
        path = tuple(f['n'] for f in fields)
        if base[0] == 'cont':
            return ('cont', base[1], base[2] + path, ty)
        if base[0] == 'call':
            return ('callfield', base[1], base[2], path, ty)
        if base[0] == 'callfield':
            return ('callfield', base[1], base[2], base[3] + path, ty)
        return ('opaque', pl['l'], path)

    def _range_arg(self, a):
        if a['k'] not in ('copy', 'move') or a['pl'].get('p'):
            return None
        d = self.single_def(a['pl']['l'])
        if d and d[0] == 'assign' and d[2]['rv']['k'] == 'agg':
            rv = d[2]['rv']
            nm = rv['name']
            if nm == 'std::ops::Range':
                return ('range', self.term_op(rv['ops'][0]), self.term_op(rv['ops'][1]), rv['ops'])
            if nm == 'std::ops::RangeFrom':
                return ('from', self.term_op(rv['ops'][0]), None, rv['ops'])
            if nm == 'std::ops::RangeTo':
                return ('to', None, self.term_op(rv['ops'][0]), rv['ops'])
            if nm == 'std::ops::RangeFull':
                return ('full', None, None, rv['ops'])
            if nm == 'std::ops::RangeToInclusive' and len(rv['ops']) == 1:
                e = self.term_op(rv['ops'][0])
                if e is not None:
                    return ('to', None, tadd(e, 1), rv['ops'])       # ..=e is ..e+1 (terms are unbounded integers)
            if nm == 'std::ops::RangeInclusive' or nm == 'std::ops::RangeToInclusive':
                return ('incl', None, None, rv['ops'])
        return None

    def len_of_place(self, pl, at_block=None):
        return self.len_of_desc(self.desc_place(pl))

    def len_of_desc(self, d):
        k = d[0]
        if k == 'cont':
            _, root, path, ty = d
            n = parse_array_len(ty)
            if n is not None and not ty.strip().lstrip('&').strip().startswith(('std::vec', 'mut std::vec')):
                return (None, int(n)) if n.isdigit() else ((None, self.cg[n]) if n in self.cg else ('N:' + n, 0))
            if root in self.mut_roots and not self.fd.is_param(root):
                fixed = self.za.vec_fixed_len(self, root)
                return fixed
            if self.fd.is_param(root) and root in self.mut_roots and self.body.local_ty(root).startswith('&mut'):
                return None
            if self.body.kind == 'Closure' and self.fd.is_param(root) and not path:
                w = self._window_len(root)
                if w is not None:
                    return (None, w)
            sym = 'len:%s%s' % (self.body.local_name(root) if self.fd.is_param(root) else '_%d' % root,
                                ''.join('.' + x for x in path))
            self.sym_bound.setdefault(sym, IMAX // elem_size_of(ty))
            return (sym, 0)
        if k == 'same':
            return self.len_of_desc(d[1])
        if k == 'rangeiter':
            return tsub(d[3], d[2])
        if k == 'sub':
            _, base, rng, l = d
            bl = self.len_of_desc(base)
            rk, s, e, _ = rng
            if rk == 'range':
                return tsub(e, s)
            if rk == 'from':
                return tsub(bl, s)
            if rk == 'to':
                return e
            if rk == 'full':
                return bl
            return None
        if k == 'call':
            _, l, t = d
            n = parse_array_len(self.body.local_ty(l))
            if n is not None:
                return (None, int(n)) if n.isdigit() else ((None, self.cg[n]) if n in self.cg else ('N:' + n, 0))
            if l in self.mut_roots:
                return self.za.vec_fixed_len(self, l)
            if (t.get('callee') or '').endswith('vec::from_elem') and len(t['args']) == 2:
                return self.term_op(t['args'][1])      # vec![x; n] that is never grown or shrunk
            if (t.get('callee') or '').endswith(('slice::<impl [T]>::into_vec', 'box_assume_init_into_vec_unsafe')) and t['args'] \
                    and t['args'][0]['k'] in ('copy', 'move'):
                # vec![a, b, c] = <[_]>::into_vec(Box::new([a, b, c])) (or its MaybeUninit form): the array length, seen through the unsizing cast
                import re as _re
                al = t['args'][0]['pl']['l']
                for _ in range(4):
                    n = parse_array_len(self.body.local_ty(al))
                    if n is not None and n.isdigit():
                        return (None, int(n))
                    m = _re.search(r'\[[^\[\]]*; (\d+)\]>+$', self.body.local_ty(al))
                    if m:
                        return (None, int(m.group(1)))
                    d = self.single_def(al)
                    if d and d[0] == 'assign' and d[2]['rv']['k'] in ('cast', 'use') and d[2]['rv']['op']['k'] in ('copy', 'move'):
                        al = d[2]['rv']['op']['pl']['l']
                        continue
                    break
            if (t.get('callee') or '') == 'std::iter::Iterator::collect' and t['args']:
                n = self.iter_len(t['args'][0])        # one element per element of the source (length-preserving adaptors only)
                if n is not None:
                    return n
            r = self.za.call_retlen(self, t, ())
            if r is None and l not in self.mut_roots:
                ty = self.body.local_ty(l)
                if ty.startswith(('std::vec::Vec<', '&[', '&std::vec::Vec<', '&mut [')):
                    self.sym_bound.setdefault('len:_%d' % l, IMAX // elem_size_of(ty))
                    return ('len:_%d' % l, 0)
            return r
        if k == 'callfield':
            _, l, t, path, ty = d
            cal = t.get('callee') or ''
            if cal.startswith('core::slice::<impl [T]>::split_') and t['args'] and t['args'][0]['k'] in ('copy', 'move') and len(path) == 1:
                # the pieces of split_first / split_last / split_at(k)
                base = self.len_of_place(t['args'][0]['pl'])
                short = cal.split('::')[-1]
                if base is not None:
                    if short in ('split_first', 'split_last', 'split_first_mut', 'split_last_mut') and path == ('1',):
                        return tadd(base, -1)
                    if short in ('split_at', 'split_at_mut', 'split_at_checked') and len(t['args']) == 2:
                        kt = self.term_op(t['args'][1])
                        if kt is not None and path == ('0',):
                            return kt
                        if kt is not None and path == ('1',):
                            return tsub(base, kt)
            r = self.za.call_retlen(self, t, path)
            if r is None:
                # a piece of an argument handed back by a local helper: end - start of that piece
                from flow import local_target
                tgt = local_target(self.za.eng, t)
                if tgt is not None and tgt != self.body.path:
                    rs = ((self.za.summary(tgt) or {}).get('retslice') or {}).get(tuple(path))
                    if rs is not None and rs[3] is not None:
                        st2, en2 = self.za.subst(self, t, rs[2], tgt=tgt), self.za.subst(self, t, rs[3], tgt=tgt)
                        if st2 is not None and en2 is not None:
                            r = tsub(en2, st2)
            if r is None and l not in self.mut_roots and ty.startswith(('std::vec::Vec<', '&[', '[')):
                sym = 'len:_%d%s' % (l, ''.join('.' + x for x in path))
                self.sym_bound.setdefault(sym, IMAX // elem_size_of(ty))
                lb = self.za.call_retlen_lb(self, t, path)
                if lb is not None and sym not in self._lb_done:
                    self._lb_done.add(sym)
                    self.global_facts.append((None, lb, (sym, 0)))
                    self._fact_cache = {k: v for k, v in self._fact_cache.items() if isinstance(k, tuple) and k and k[0] == 'pb'}
                return (sym, 0)
            return r
        return None

    # ------------------------------------------------------------------ facts
    def _collect_edge_facts(self):
        body = self.body
        for bi, blk in enumerate(body.blocks):
            if blk['cleanup']:
                continue
            t = blk['term']
            if t['k'] != 'switch' or t['discr']['k'] not in ('copy', 'move'):
                continue
            self._pending_mods = []
            self._post_variant = '0'
            post = self._post_facts_of_switch(t)
            # the edge taken on success: discriminant 0 (Ok, Continue) or 1 (Some)
            tgt0 = [b for v, b in t['targets'] if v == self._post_variant]
            if not tgt0 and self._post_variant == '1' and [v for v, b in t['targets']] == ['0'] and t.get('otherwise') is not None \
                    and t['otherwise'] != t['targets'][0][1]:
                tgt0 = [t['otherwise']]
            if self._pending_mods:
                if tgt0:
                    self.edge_mods.setdefault((bi, tgt0[0]), []).extend(self._pending_mods)
            if post:
                if tgt0:
                    self.edge_facts.setdefault((bi, tgt0[0]), []).extend(post)
                continue
            nf = self._none_facts_of_find(t)
            if nf:
                tgt0 = [b for v, b in t['targets'] if v == '0']
                vals = [v for v, b in t['targets']]
                none_edge = tgt0[0] if tgt0 else (t['otherwise'] if vals == ['1'] else None)
                some_edges = [b for v, b in t['targets'] if v != '0'] + ([t['otherwise']] if tgt0 else [])
                if none_edge is not None and none_edge not in some_edges:
                    self.edge_facts.setdefault((bi, none_edge), []).extend(nf)
                continue
            zero_t = [b for v, b in t['targets'] if v == '0']
            if len(t['targets']) != 1 or not zero_t or zero_t[0] == t['otherwise']:
                continue
            f_edge, t_edge = zero_t[0], t['otherwise']
            mt, mf = self._mod_pair(t['discr']['pl'], 0)
            if mt:
                self.edge_mods.setdefault((bi, t_edge), []).extend(mt)
            if mf:
                self.edge_mods.setdefault((bi, f_edge), []).extend(mf)
            cmpv = self._trace_bool(t['discr']['pl'], 0)
            if cmpv is None:
                continue
            if cmpv[0] == 'FACTS':
                tf, ff = cmpv[1], cmpv[2]
            else:
                op, a, b, neg = cmpv
                tf, ff = self._cmp_facts(op, a, b)
                if neg:
                    tf, ff = ff, tf
            self.edge_facts[(bi, t_edge)] = tf
            self.edge_facts[(bi, f_edge)] = ff

    def _post_facts_of_switch(self, t):
        """switch on discriminant(branch(local_call(..))): facts the callee guarantees on its Ok returns."""
        pl = t['discr']['pl']
        if pl.get('p'):
            return None
        d = self.single_def(pl['l'])
        if not d or d[0] != 'assign' or d[2]['rv']['k'] != 'discr':
            return None
        src = d[2]['rv']['pl']
        if src.get('p'):
            return None
        d2 = self.single_def(src['l'])
        self._post_variant = '0'
        if d2 and d2[0] == 'call' and (d2[2].get('callee') or '') == 'std::ops::Try::branch':
            a0 = d2[2]['args'][0]
            if a0['k'] not in ('copy', 'move') or a0['pl'].get('p'):
                return None
            o = self._origin_call(a0['pl']['l'])
        else:
            # the Result / Option matched on directly (`let Ok(x) = f(..) else { return .. }`, `match f(..) { Some(x) => .., None => .. }`)
            ty = self.body.local_ty(src['l'])
            if ty.startswith('std::option::Option<'):
                self._post_variant = '1'
            elif not ty.startswith('std::result::Result<'):
                return None
            o = self._origin_call(src['l'])
        if not o:
            return None
        call = o[1]
        from flow import local_target
        # `x.and_then(f)` / `x.map(f)` / `x.filter(p)` succeed only if x did: what the success of x guarantees still holds
        for _ in range(6):
            if (call.get('callee') or '') in SUCCESS_PRESERVING and call['args'] and call['args'][0]['k'] in ('copy', 'move') \
                    and not call['args'][0]['pl'].get('p'):
                o2 = self._origin_call(call['args'][0]['pl']['l'])
                if not o2:
                    return None
                call = o2[1]
                continue
            break
        if (call.get('callee') or '') in ('std::option::Option::<T>::map_or', 'std::option::Option::<T>::map_or_else') and len(call['args']) == 3:
            nf = self._map_or_none_facts(call)
            if nf is not None:
                return nf
        tgt = local_target(self.za.eng, call)
        if tgt is None and (call.get('callee') or '') in ('core::slice::<impl [T]>::get', 'core::slice::<impl [T]>::get_mut') and len(call['args']) == 2 \
                and call['args'][0]['k'] in ('copy', 'move'):
            # slice.get(range / index) succeeded: the range / index is inside the slice
            ln = self.len_of_place(call['args'][0]['pl'])
            rng = self._range_arg(call['args'][1])
            if ln is None:
                return None
            if rng is not None:
                rk, s0, e0, _ = rng
                out = []
                if rk == 'range' and s0 is not None and e0 is not None:
                    out = [(s0, e0), (e0, ln)]
                elif rk == 'from' and s0 is not None:
                    out = [(s0, ln)]
                elif rk == 'to' and e0 is not None:
                    out = [(e0, ln)]
                return out or None
            ix = self.term_op(call['args'][1])
            if ix is not None:
                return [(tadd(ix, 1), ln)]
            return None
        if tgt is None and (call.get('callee') or '') in ('std::convert::TryFrom::try_from', 'std::convert::TryInto::try_into'):
            # an integer converted into a narrower unsigned type: it fits (`u8::try_from(dst.len())` succeeded: the length is at most 255)
            import re
            full = call.get('callee_full') or ''
            mi = re.match(r'^<(u8|u16|u32) as std::convert::TryFrom<(usize|u64|u32|u16)>>::try_from', full) \
                or re.match(r'^<(usize|u64|u32|u16) as std::convert::TryInto<(u8|u16|u32)>>::try_into', full)
            if mi and call['args']:
                narrow = mi.group(1) if 'TryFrom' in full else mi.group(2)
                v = self.term_op(call['args'][0])
                if v is not None:
                    return [(v, (None, {'u8': 255, 'u16': 65535, 'u32': 2 ** 32 - 1}[narrow]))]
                return None
            # slice -> array conversion succeeds iff the lengths agree
            m = re.search(r'\[[^;\]]+; (\w+)\]', call.get('callee_full') or '')
            if m and call['args'][0]['k'] in ('copy', 'move'):
                n = m.group(1)
                want = (None, int(n)) if n.isdigit() else ((None, self.cg[n]) if n in self.cg else ('N:' + n, 0))
                ln = self.len_of_place(call['args'][0]['pl'])
                if ln is not None and parse_array_len(self.body.local_ty(call['args'][0]['pl']['l'])) is None:
                    return [(ln, want), (want, ln)]
            return None
        if tgt is None and (call.get('callee') or '').endswith(('<impl [T]>::first_chunk', '<impl [T]>::last_chunk', '<impl [T]>::split_first_chunk',
                                                                  '<impl [T]>::split_last_chunk')):
            # the first / last N elements exist: the slice has at least N (it may have more)
            ca = call.get('cargs') or []
            if len(ca) == 1 and call['args'] and call['args'][0]['k'] in ('copy', 'move'):
                n = ca[0]
                want = (None, int(n)) if str(n).isdigit() else ((None, self.cg[n]) if n in self.cg else ('N:' + str(n), 0))
                ln = self.len_of_place(call['args'][0]['pl'])
                if ln is not None:
                    return [(want, ln)]
            return None
        cargs = None
        if (call.get('callee') or '') in ('std::ops::Fn::call', 'std::ops::FnMut::call_mut', 'std::ops::FnOnce::call_once') and len(call['args']) == 2:
            tgt = None
            # a local closure used as a checking helper: `check(list, bound)?`
            a0c, a1c = call['args']
            if a0c['k'] in ('copy', 'move') and not a0c['pl'].get('p') and a1c['k'] in ('copy', 'move') and not a1c['pl'].get('p'):
                ci = self.fd._closure_info(a0c['pl']['l'])
                dt = self.single_def(a1c['pl']['l'])
                if ci is not None and dt is not None and dt[0] == 'assign' and dt[2]['rv']['k'] == 'agg' and dt[2]['rv'].get('ak') == 'tuple':
                    tgt = ci[0]
                    cargs = [a0c] + list(dt[2]['rv']['ops'])
        if tgt is None or tgt == self.body.path:
            return None
        summ = self.za.summary(tgt)
        if not summ:
            return None
        out = []
        for (t1, t2) in summ.get('post', []):
            a, b = self.za.subst(self, call, t1, tgt=tgt, args=cargs), self.za.subst(self, call, t2, tgt=tgt, args=cargs)
            if a is not None and b is not None:
                out.append((a, b))
        # an integer argument the callee found to be at most a sum of its other arguments' sizes: a constant bound here
        for (t1, (lin, c0)) in summ.get('post_lin', []):
            a = self.za.subst(self, call, t1, tgt=tgt, args=cargs)
            ub = self._lin_ub(call, tgt, cargs, lin, c0)
            if a is not None and a[0] is not None and ub is not None:
                out.append((a, (None, ub)))
        # `ensure(cond, || err)?`: the callee succeeds only if the boolean it was given is true - the comparison that produced it holds here
        for k in summ.get('post_true', []):
            aargs = cargs if cargs is not None else call['args']
            if k - 1 < len(aargs) and aargs[k - 1]['k'] in ('copy', 'move') and not aargs[k - 1]['pl'].get('p'):
                self._pending_mods = getattr(self, '_pending_mods', []) + self._mod_pair(aargs[k - 1]['pl'], 0)[0]
                cv = self._trace_bool(aargs[k - 1]['pl'], 0)
                if cv is None:
                    continue
                if cv[0] == 'FACTS':
                    out.extend(cv[1])
                else:
                    op, a, b, neg = cv
                    tf, ff = self._cmp_facts(op, a, b)
                    out.extend(ff if neg else tf)
        return out

    def _map_or_none_facts(self, call):
        """`iter.find(p).map_or(Ok(..), |x| Err(..))?`: the result is Ok only if nothing was found"""
        opt, dflt, clo = call['args']
        if clo['k'] not in ('copy', 'move') or clo['pl'].get('p') or opt['k'] not in ('copy', 'move') or opt['pl'].get('p'):
            return None
        ci = self.fd._closure_info(clo['pl']['l'])
        if ci is None or ci[0] not in self.za.prog.bodies:
            return None
        cb = self.za.prog.bodies[ci[0]]
        rets = [s for bi, s in cb.stmts() if s['k'] == 'assign' and s['dst']['l'] == 0 and not s['dst'].get('p')]
        if not rets or not all(s['rv']['k'] == 'agg' and s['rv'].get('variant') == 'Err' for s in rets):
            return None
        # the default must be a success value
        if dflt['k'] in ('copy', 'move') and not dflt['pl'].get('p'):
            dd = self.single_def(dflt['pl']['l'])
            if not (dd and dd[0] == 'assign' and dd[2]['rv']['k'] == 'agg' and dd[2]['rv'].get('variant') == 'Ok'):
                return None
        elif dflt['k'] != 'const':
            return None
        o = self._origin_call(opt['pl']['l'])
        if not o or (o[1].get('callee') or '') not in ('std::iter::Iterator::find', 'std::iter::Iterator::position') or len(o[1]['args']) != 2:
            return None
        x = o[1]
        if x['args'][1]['k'] not in ('copy', 'move') or x['args'][1]['pl'].get('p'):
            return None
        es = self.elem_sym_of_iter(x['args'][0])
        ci2 = self.fd._closure_info(x['args'][1]['pl']['l'])
        if es is None or ci2 is None:
            return None
        pf = self.closure_predicate_facts(ci2[0], ci2[1], es)
        if pf is None:
            return None
        return pf[1]

    def _none_facts_of_helper(self, call):
        """a local search helper returned None: the facts its summary guarantees then, in this body's terms"""
        from flow import local_target
        tgt = local_target(self.za.eng, call)
        if tgt is None or tgt == self.body.path:
            return None
        summ = self.za.summary(tgt)
        out = []
        for (a, b) in (summ or {}).get('post_none', []):
            a2, b2 = self.za.subst(self, call, a), self.za.subst(self, call, b)
            if a2 is not None and b2 is not None:
                out.append((a2, b2))
        return out or None

    def _none_facts_of_find(self, t):
        """switch on discriminant(iter.find(p)) / iter.position(p): on the None edge no element satisfies p"""
        pl = t['discr']['pl']
        if pl.get('p'):
            return None
        d = self.single_def(pl['l'])
        if not d or d[0] != 'assign' or d[2]['rv']['k'] != 'discr' or d[2]['rv']['pl'].get('p'):
            return None
        d2 = self.single_def(d[2]['rv']['pl']['l'])
        if d2 and d2[0] == 'call':
            hf = self._none_facts_of_helper(d2[2])
            if hf:
                return hf
        if not d2 or d2[0] != 'call' or (d2[2].get('callee') or '') not in ('std::iter::Iterator::find', 'std::iter::Iterator::position') or len(d2[2]['args']) != 2:
            return None
        x = d2[2]
        if x['args'][1]['k'] not in ('copy', 'move') or x['args'][1]['pl'].get('p'):
            return None
        es = self.elem_sym_of_iter(x['args'][0])
        ci = self.fd._closure_info(x['args'][1]['pl']['l'])
        if es is None or ci is None:
            return None
        pf = self.closure_predicate_facts(ci[0], ci[1], es)
        if pf is None:
            return None
        return pf[1]

    def _trace_bool(self, pl, depth, _def=None):
        if depth > 8 or pl.get('p'):
            return None
        d = _def if _def is not None else self.single_def(pl['l'])
        if d is None:
            return self._trace_short_circuit(pl['l'], depth)
        kind, bi, x = d
        if kind == 'assign':
            rv = x['rv']
            if rv['k'] == 'binop' and rv['op'] in ('Eq', 'Ne', 'Lt', 'Le', 'Gt', 'Ge'):
                a, b = self.term_op(rv['a']), self.term_op(rv['b'])
                if a is not None and b is not None:
                    return (rv['op'], a, b, False)
                return None
            if rv['k'] == 'unop' and rv['op'] == 'Not' and rv['a']['k'] in ('copy', 'move'):
                r = self._trace_bool(rv['a']['pl'], depth + 1)
                if r and r[0] == 'FACTS':
                    return ('FACTS', r[2], r[1], False)
                if r:
                    return (r[0], r[1], r[2], not r[3])
            if rv['k'] == 'use' and rv['op']['k'] in ('copy', 'move'):
                return self._trace_bool(rv['op']['pl'], depth + 1)
        if kind == 'call':
            cal = x.get('callee') or ''
            if cal in ('core::slice::<impl [T]>::is_empty', 'std::vec::Vec::<T, A>::is_empty') and x['args'][0]['k'] in ('copy', 'move'):
                ln = self.len_of_place(x['args'][0]['pl'])
                if ln is not None:
                    return ('Eq', ln, (None, 0), False)
            if cal in ('std::option::Option::<T>::is_none', 'std::option::Option::<T>::is_some') and x['args'] and x['args'][0]['k'] in ('copy', 'move'):
                # `iter.find(p).is_none()`: no element satisfies p
                r0 = x['args'][0]['pl']['l']
                for _ in range(3):
                    dr = self.single_def(r0)
                    if dr and dr[0] == 'assign' and dr[2]['rv']['k'] in ('ref', 'use'):
                        src = dr[2]['rv'].get('pl') or dr[2]['rv'].get('op', {}).get('pl')
                        if src and not src.get('p'):
                            r0 = src['l']
                            continue
                    break
                o = self._origin_call(r0)
                if o:
                    hf = self._none_facts_of_helper(o[1])
                    if hf:
                        return ('FACTS', hf, [], False) if cal.endswith('is_none') else ('FACTS', [], hf, False)
                if o and (o[1].get('callee') or '') in ('std::iter::Iterator::find', 'std::iter::Iterator::position') and len(o[1]['args']) == 2 \
                        and o[1]['args'][1]['k'] in ('copy', 'move') and not o[1]['args'][1]['pl'].get('p'):
                    es = self.elem_sym_of_iter(o[1]['args'][0])
                    ci = self.fd._closure_info(o[1]['args'][1]['pl']['l'])
                    pf = self.closure_predicate_facts(ci[0], ci[1], es) if (es is not None and ci is not None) else None
                    if pf is not None:
                        none_facts = pf[1]
                        if cal.endswith('is_none'):
                            return ('FACTS', none_facts, [], False)
                        return ('FACTS', [], none_facts, False)
            if cal in ('std::ops::Range::<Idx>::contains', 'std::ops::RangeTo::<Idx>::contains', 'std::ops::RangeFrom::<Idx>::contains') and len(x['args']) == 2:
                # `(a..b).contains(&x)`: true means a <= x < b (false says nothing a difference bound can hold)
                rg = x['args'][0]
                if rg['k'] in ('copy', 'move') and not rg['pl'].get('p'):
                    dr = self.single_def(rg['pl']['l'])
                    if dr and dr[0] == 'assign' and dr[2]['rv']['k'] == 'ref' and not dr[2]['rv']['pl'].get('p'):
                        rg = {'k': 'copy', 'pl': dr[2]['rv']['pl']}
                r = self._range_arg(rg)
                it = self.term_op(x['args'][1])
                if r is not None and it is not None and r[0] in ('range', 'to', 'from'):
                    tf = []
                    if r[1] is not None:
                        tf.append((r[1], it))
                    if r[2] is not None:
                        tf.append((tadd(it, 1), r[2]))
                    if tf:
                        return ('FACTS', tf, [], False)
            if cal in ('std::option::Option::<T>::map_or', 'std::option::Option::<T>::is_some_and') and len(x['args']) in (2, 3) \
                    and x['args'][0]['k'] in ('copy', 'move') and not x['args'][0]['pl'].get('p') and x['args'][-1]['k'] in ('copy', 'move') \
                    and not x['args'][-1]['pl'].get('p') and (len(x['args']) == 2 or (x['args'][1]['k'] == 'const' and x['args'][1].get('int') == '0')):
                # `list.last().map_or(false, |&i| i >= L)` on a list that is known to be in ascending order here: the last element is the largest
                # one, so an upper bound that holds for it (the predicate came out false) holds for every element
                o = self.single_def(x['args'][0]['pl']['l'])
                if o and o[0] == 'call' and (o[2].get('callee') or '') == 'core::slice::<impl [T]>::last' and o[2]['args'] and o[2]['args'][0]['k'] in ('copy', 'move'):
                    lpl = o[2]['args'][0]['pl']
                    es = self.elem_sym_of_desc(self.desc_place(lpl))
                    ci = self.fd._closure_info(x['args'][-1]['pl']['l'])
                    pr = self.closure_predicate(ci[0], ci[1], es) if (es is not None and ci is not None) else None
                    if pr is not None:
                        from rf_codec import _ascending_validated
                        root = self.fd.resolve_place(lpl)[0]
                        if _ascending_validated(self.za.prog, self.za.eng, self.body, self.fd, root, bi):
                            op, a, b, neg = pr
                            tf, ff = self._cmp_facts(op, a, b)
                            if neg:
                                tf, ff = ff, tf
                            ups = [(t1, t2) for (t1, t2) in ff if t1 is not None and t2 is not None and t1[0] == es and t2[0] != es]
                            if ups:
                                return ('FACTS', [], ups, False)
            if cal in ('std::iter::Iterator::any', 'std::iter::Iterator::all') and len(x['args']) == 2 and x['args'][1]['k'] in ('copy', 'move') \
                    and not x['args'][1]['pl'].get('p'):
                # quantified predicate over the elements of a container: all(p) true => p for every element; any(p) false => !p for every element
                es = self.elem_sym_of_iter(x['args'][0])
                ci = self.fd._closure_info(x['args'][1]['pl']['l'])
                if es is not None and ci is not None:
                    pf = self.closure_predicate_facts(ci[0], ci[1], es)
                    if pf is not None:
                        tf, ff = pf
                        if cal.endswith('::all'):
                            return ('FACTS', tf, [], False)
                        return ('FACTS', [], ff, False)
        return None

    def _mod_pair(self, pl, depth=0):
        """(congruences that hold when the boolean is true, when it is false); a congruence is (sym, c, m): (sym + c) % m == 0"""
        if depth > 8 or pl.get('p'):
            return ([], [])
        l = pl['l']
        d = self.single_def(l)
        if d is None:
            sc = self._short_circuit_parts(l)
            if sc is None:
                return ([], [])
            cval, first_pl, other_rv, other_on_true = sc
            f = self._mod_pair(first_pl, depth + 1)
            if other_rv['k'] == 'use' and other_rv['op']['k'] in ('copy', 'move'):
                o = self._mod_pair(other_rv['op']['pl'], depth + 1)
            else:
                o = self._mod_of_rvalue(other_rv, depth)
            if not cval:        # first && second: true => both
                return ((f[0] if other_on_true else f[1]) + o[0], [])
            return ([], (f[1] if not other_on_true else f[0]) + o[1])
        kind, bi, x = d
        if kind != 'assign':
            return ([], [])
        rv = x['rv']
        if rv['k'] == 'use' and rv['op']['k'] in ('copy', 'move'):
            return self._mod_pair(rv['op']['pl'], depth + 1)
        if rv['k'] == 'unop' and rv['op'] == 'Not' and rv['a']['k'] in ('copy', 'move'):
            t, f = self._mod_pair(rv['a']['pl'], depth + 1)
            return (f, t)
        return self._mod_of_rvalue(rv, depth)

    def _mod_of_rvalue(self, rv, depth):
        if rv['k'] != 'binop' or rv['op'] not in ('Eq', 'Ne'):
            return ([], [])
        a, b = rv['a'], rv['b']
        if b['k'] != 'const' or b.get('int') != '0' or a['k'] not in ('copy', 'move') or a['pl'].get('p'):
            return ([], [])
        d2 = self.single_def(a['pl']['l'])
        if not d2 or d2[0] != 'assign' or d2[2]['rv']['k'] != 'binop' or d2[2]['rv']['op'] != 'Rem':
            return ([], [])
        xx, m = self.term_op(d2[2]['rv']['a']), self.term_op(d2[2]['rv']['b'])
        if xx is None or m is None or m[0] is not None or xx[0] is None or m[1] < 1:
            return ([], [])
        c = [(xx[0], xx[1], m[1])]
        return (c, []) if rv['op'] == 'Eq' else ([], c)

    def _short_circuit_parts(self, l):
        """(constant value, place of the first condition, rvalue of the second, second evaluated on the true edge of the first) for `a && b` / `a || b`"""
        body = self.body
        if body.local_ty(l) != 'bool' or self.fd.is_param(l):
            return None
        ds = [d for d in self.fd.defs.get(l, []) if not d[2].get('dst', {}).get('p')]
        if len(ds) != 2 or not all(d[0] == 'assign' for d in ds):
            return None
        const = [d for d in ds if d[2]['rv']['k'] == 'use' and d[2]['rv']['op']['k'] == 'const' and d[2]['rv']['op'].get('int') in ('0', '1')]
        other = [d for d in ds if d not in const]
        if len(const) != 1 or len(other) != 1:
            return None
        cval = const[0][2]['rv']['op']['int'] == '1'
        cb, ob = const[0][1], other[0][1]
        for sb, blk in enumerate(body.blocks):
            t = blk['term']
            if blk['cleanup'] or t['k'] != 'switch' or t['discr']['k'] not in ('copy', 'move') or t['discr']['pl'].get('p'):
                continue
            succ = set(body.succ[sb])
            sc = [x for x in succ if x == cb or (body.dominates(x, cb) and not body.dominates(x, ob))]
            so = [x for x in succ if x == ob or (body.dominates(x, ob) and not body.dominates(x, cb))]
            if len(sc) == 1 and len(so) == 1 and sc[0] != so[0] and body.dominates(sb, cb) and body.dominates(sb, ob):
                zero_t = [x for v, x in t['targets'] if v == '0']
                return (cval, t['discr']['pl'], other[0][2]['rv'], bool(zero_t) and so[0] != zero_t[0])
        return None

    def _facts_pair(self, r):
        """(facts when true, facts when false) of a traced boolean"""
        if r is None:
            return None
        if r[0] == 'FACTS':
            return (list(r[1]), list(r[2]))
        op, a, b, neg = r
        tf, ff = self._cmp_facts(op, a, b)
        return (ff, tf) if neg else (tf, ff)

    def _trace_short_circuit(self, l, depth):
        """`a && b` / `a || b` as MIR builds them: a bool assigned a constant on one edge of the switch on `a` and `b` on the other.
        True `&&` means both hold; false `||` means neither does."""
        body = self.body
        if body.local_ty(l) != 'bool' or self.fd.is_param(l):
            return None
        ds = [d for d in self.fd.defs.get(l, []) if not d[2].get('dst', {}).get('p')]
        if len(ds) != 2 or not all(d[0] in ('assign', 'call') for d in ds):
            return None
        const = [d for d in ds if d[0] == 'assign' and d[2]['rv']['k'] == 'use' and d[2]['rv']['op']['k'] == 'const' and d[2]['rv']['op'].get('int') in ('0', '1')]
        other = [d for d in ds if d not in const]
        if len(const) != 1 or len(other) != 1:
            return None
        cval = const[0][2]['rv']['op']['int'] == '1'
        cb, ob = const[0][1], other[0][1]
        if other[0][0] == 'call':
            ob = other[0][2].get('t', ob)       # the value exists from the block the call returns to
        # the switch that separates the two definitions
        sw = None
        for sb, blk in enumerate(body.blocks):
            t = blk['term']
            if blk['cleanup'] or t['k'] != 'switch' or t['discr']['k'] not in ('copy', 'move') or t['discr']['pl'].get('p'):
                continue
            succ = set(body.succ[sb])
            def leads(x, tgt):
                for _ in range(3):
                    if x == tgt:
                        return True
                    if len(body.succ[x]) == 1 and not body.blocks[x]['stmts']:
                        x = body.succ[x][0]
                    else:
                        return False
                return x == tgt
            sc = [x for x in succ if leads(x, cb) or (body.dominates(x, cb) and not body.dominates(x, ob))]
            so = [x for x in succ if leads(x, ob) or (body.dominates(x, ob) and not body.dominates(x, cb))]
            if len(sc) == 1 and len(so) == 1 and sc[0] != so[0] and body.dominates(sb, cb) and body.dominates(sb, ob):
                sw = (sb, t, sc[0], so[0])
        if sw is None:
            return None
        sb, t, edge_c, edge_o = sw
        first = self._facts_pair(self._trace_bool(t['discr']['pl'], depth + 1))
        second = None
        if other[0][0] == 'call':
            # the second operand is computed by a call straight into the variable (`a || list.iter().any(..)`)
            second = self._facts_pair(self._trace_bool({'l': l}, depth + 1, _def=other[0]))
            rv = {'k': None}
        else:
            rv = other[0][2]['rv']
        if rv['k'] == 'use' and rv['op']['k'] in ('copy', 'move'):
            second = self._facts_pair(self._trace_bool(rv['op']['pl'], depth + 1))
        elif rv['k'] == 'binop' and rv['op'] in ('Eq', 'Ne', 'Lt', 'Le', 'Gt', 'Ge'):
            a, b = self.term_op(rv['a']), self.term_op(rv['b'])
            if a is not None and b is not None:
                second = self._cmp_facts(rv['op'], a, b)
        elif rv['k'] == 'unop' and rv['op'] == 'Not' and rv['a']['k'] in ('copy', 'move'):
            sp = self._facts_pair(self._trace_bool(rv['a']['pl'], depth + 1))
            second = (sp[1], sp[0]) if sp else None
        if first is None and second is None:
            return None
        first = first or ([], [])
        second = second or ([], [])
        zero_t = [x for v, x in t['targets'] if v == '0']
        # was the `other` definition reached on the true edge of the first condition?
        other_on_true = bool(zero_t) and edge_o != zero_t[0]
        if not cval:
            # constant false: `first && second` (other on the true edge) - value true => first and second hold
            if other_on_true:
                return ('FACTS', first[0] + second[0], [], False)
            return ('FACTS', first[1] + second[0], [], False)
        # constant true: `first || second` (other on the false edge) - value false => neither holds
        if not other_on_true:
            return ('FACTS', [], first[1] + second[1], False)
        return ('FACTS', [], first[0] + second[1], False)

    def _cmp_facts(self, op, a, b):
        """facts (as lists of (t1,t2) meaning t1<=t2) on the true edge and on the false edge."""
        le = lambda x, y: [(x, y)]
        lt = lambda x, y: [(tadd(x, 1), y)]
        eq = lambda x, y: [(x, y), (y, x)]
        def ne(x, y):
            # x != y carries a bound only against the ends of the unsigned range
            if y[0] is None and y[1] == 0:
                return [((None, 1), x)]
            if x[0] is None and x[1] == 0:
                return [((None, 1), y)]
            if y[0] is None and y[1] == UMAX:
                return [(x, (None, UMAX - 1))]
            if x[0] is None and x[1] == UMAX:
                return [(y, (None, UMAX - 1))]
            return []
        if op == 'Eq':
            return eq(a, b), ne(a, b)
        if op == 'Ne':
            return ne(a, b), eq(a, b)
        if op == 'Lt':
            return lt(a, b), le(b, a)
        if op == 'Le':
            return le(a, b), lt(b, a)
        if op == 'Gt':
            return lt(b, a), le(a, b)
        if op == 'Ge':
            return le(b, a), lt(a, b)
        return [], []

    def _edge_dominates(self, s, tgt, b):
        body = self.body
        if not body.dominates(tgt, b):
            return False
        for p in body.pred[tgt]:
            if p != s and not body.dominates(tgt, p):
                return False
        # s may have several edges to tgt only if they are the same edge (succ list is de-duplicated)
        return True

    def facts_at(self, b):
        if b in self._fact_cache:
            return self._fact_cache[b]
        facts = self._facts_at(b)
        facts = [(a, c) for (a, c) in facts if not self.unstable(a) and not self.unstable(c)]
        facts.extend(self.inv_facts)
        # x / c and c * x are not difference constraints: carry the constant bounds of x over to them
        for r, (kind, x, c, where) in sorted(self.scaled.items()):
            if (where is not None and not self.body.dominates(where, b)) or self.unstable(x) or self.unstable((r, 0)):
                continue
            lo = dbm_lower(facts, x, self.sym_ub)
            if lo is not None and lo > 0:
                facts.append(((None, lo // c if kind == 'div' else lo * c), (r, 0)))
            if kind == 'div':
                hi = dbm_upper(facts, x, self.sym_ub)
                if hi is not None and 0 <= hi < UMAX:
                    facts.append(((r, 0), (None, hi // c)))
        self._fact_cache[b] = facts
        return facts

    def _facts_at(self, b):
        facts = []
        for (s, tgt), fs in self.edge_facts.items():
            if fs and self._edge_dominates(s, tgt, b):
                facts.extend(fs)
        for (where, t1, t2) in self.global_facts:
            if where is None:
                facts.append((t1, t2))
            elif isinstance(where, tuple) and where[0] == 'payload':
                # valid wherever the payload local is defined, i.e. in blocks dominated by the block reading it
                l = where[1]
                defblocks = self._payload_blocks(l)
                if any(self.body.dominates(db, b) for db in defblocks):
                    facts.append((t1, t2))
            else:
                if self.body.dominates(where, b):
                    facts.append((t1, t2))
        return facts

    def _payload_blocks(self, l):
        """blocks where a downcast payload of local l is read (the match arm)."""
        key = ('pb', l)
        if key in self._fact_cache:
            return self._fact_cache[key]
        out = set()
        for bi, blk in enumerate(self.body.blocks):
            if blk['cleanup']:
                continue
            for s in blk['stmts']:
                if s['k'] == 'assign':
                    rv = s['rv']
                    pls = []
                    if rv['k'] in ('use', 'cast') and rv['op']['k'] in ('copy', 'move'):
                        pls.append(rv['op']['pl'])
                    if rv['k'] == 'ref':
                        pls.append(rv['pl'])
                    for pl in pls:
                        if pl['l'] == l and any(p['k'] == 'downcast' and p['n'] in ('Some', 'Continue', 'Ok') for p in pl.get('p', [])):
                            out.add(bi)
        self._fact_cache[key] = out
        return out

    # ------------------------------------------------------------------ difference-bound closure
    def prove_le(self, t1, t2, b, extra=()):
        """is t1 <= t2 provable at block b?"""
        if t1 is None or t2 is None:
            return False
        if t1[0] == t2[0]:
            return t1[1] <= t2[1]
        if t1[0] is None and t2[0] is not None and t1[1] <= t2[1] and t2[1] >= 0 and t1[1] <= 0:
            return True
        facts = list(self.facts_at(b)) + list(extra)
        if dbm_entails(facts, t1, t2, self.sym_ub):
            return True
        # a value that never exceeds another one by construction (a quotient, a checked difference, the payload of `opt.map(|x| x / c)`)
        cur, hops = t1, 0
        while cur[0] is not None and cur[0] in self.sym_le and hops < 6:
            nx = self.sym_le[cur[0]]
            cur = (nx[0], nx[1] + cur[1])
            hops += 1
            if cur[0] == t2[0]:
                return cur[1] <= t2[1]
            if not self.unstable(cur) and dbm_entails(facts, cur, t2, self.sym_ub):
                return True
        return False

    def lower_bound(self, t, b, extra=()):
        if t is None:
            return 0
        if t[0] is None:
            return t[1]
        return dbm_lower(list(self.facts_at(b)) + list(extra), t, self.sym_ub)

    def upper_bound(self, t, b, extra=()):
        """smallest provable constant upper bound of term t at block b."""
        if t is None:
            return UMAX
        if t[0] is None:
            return t[1]
        facts = list(self.facts_at(b)) + list(extra)
        return dbm_upper(facts, t, self.sym_ub)


def linear_form(zf, t, depth=0):
    """a term as a linear form ({symbol: coefficient}, constant), expanding sums of two symbolic values the zone keeps as opaque symbols"""
    if t is None or depth > 8:
        return None
    sy, c = t
    if sy is None:
        return ({}, c)
    if sy.startswith('v') and sy[1:].isdigit() and (zf.body.path, int(sy[1:])) in zf.za.sums:
        a, b = zf.za.sums[(zf.body.path, int(sy[1:]))]
        la, lb = linear_form(zf, a, depth + 1), linear_form(zf, b, depth + 1)
        if la is None or lb is None:
            return None
        out = dict(la[0])
        for k, v in lb[0].items():
            out[k] = out.get(k, 0) + v
        return (out, la[1] + lb[1] + c)
    if (zf.body.path, sy) in zf.za.retexpr:
        # an integer handed back by a local function: its linear form there, in the terms of this call's arguments
        tgt, call, ct = zf.za.retexpr[(zf.body.path, sy)]
        lc = linear_form(zf.za.zf(tgt), ct, depth + 1)
        if lc is None:
            return None
        out, oc = {}, lc[1] + c
        for s2, k2 in lc[0].items():
            tt = zf.za.subst(zf, call, (s2, 0), tgt)
            lt = linear_form(zf, tt, depth + 1) if tt is not None else None
            if lt is None:
                return None
            for s3, k3 in lt[0].items():
                out[s3] = out.get(s3, 0) + k2 * k3
            oc += k2 * lt[1]
        return ({k: v for k, v in out.items() if v != 0}, oc)
    if (zf.body.path, sy) in zf.za.diffs:
        a, b = zf.za.diffs[(zf.body.path, sy)]
        la, lb = linear_form(zf, a, depth + 1), linear_form(zf, b, depth + 1)
        if la is None or lb is None:
            return None
        out = dict(la[0])
        for k, v in lb[0].items():
            out[k] = out.get(k, 0) - v
        return ({k: v for k, v in out.items() if v != 0}, la[1] - lb[1] + c)
    return ({sy: 1}, c)



import re as _re_mod
_ELEM_READ = _re_mod.compile(r'^v\d+(x\d*|e\d*)$')


def dbm_build(facts, sym_ub):
    syms = {}
    def idx(s):
        if s not in syms:
            syms[s] = len(syms)
        return syms[s]
    idx(None)
    cons = []
    for (a, b) in facts:
        if a is None or b is None:
            continue
        # a.sym + a.c <= b.sym + b.c   ->  a.sym - b.sym <= b.c - a.c
        cons.append((idx(a[0]), idx(b[0]), b[1] - a[1]))
    return syms, cons, idx


def dbm_closure(syms, cons, sym_ub):
    n = len(syms)
    INF = float('inf')
    d = [[INF] * n for _ in range(n)]
    for i in range(n):
        d[i][i] = 0
    z = syms[None]
    for s, i in syms.items():
        if s is None:
            continue
        if not s.startswith('elem:') and not _ELEM_READ.match(s):
            # 0 - s <= 0.  Not for `elem:c` (bounds every element of c: vacuous when c is empty) and not for the symbol of one element read
            # (its relation `read <= elem:c` is recorded globally; a lower bound on it would leak into elem:c where nothing was read)
            d[z][i] = min(d[z][i], 0)
        d[i][z] = min(d[i][z], sym_ub(s))       # s - 0 <= ub
    for (i, j, c) in cons:
        if c < d[i][j]:
            d[i][j] = c
    for k in range(n):
        dk = d[k]
        for i in range(n):
            dik = d[i][k]
            if dik == INF:
                continue
            di = d[i]
            for j in range(n):
                v = dik + dk[j]
                if v < di[j]:
                    di[j] = v
    return d


def dbm_entails(facts, t1, t2, sym_ub):
    syms, cons, idx = dbm_build(facts, sym_ub)
    i, j = idx(t1[0]), idx(t2[0])
    d = dbm_closure(syms, cons, sym_ub)
    # inconsistent facts (unreachable block): everything holds
    for k in range(len(syms)):
        if d[k][k] < 0:
            return True
    return d[i][j] <= t2[1] - t1[1]


def dbm_lower(facts, t, sym_ub):
    syms, cons, idx = dbm_build(facts, sym_ub)
    i = idx(t[0])
    d = dbm_closure(syms, cons, sym_ub)
    v = d[syms[None]][i]          # 0 - sym <= v   =>  sym >= -v
    if v == float('inf'):
        return 0
    return max(0, -v + t[1])


def dbm_upper(facts, t, sym_ub):
    syms, cons, idx = dbm_build(facts, sym_ub)
    i = idx(t[0])
    d = dbm_closure(syms, cons, sym_ub)
    for k in range(len(syms)):
        if d[k][k] < 0:
            return 0
    v = d[i][syms[None]]
    if v == float('inf'):
        return UMAX
    return min(UMAX, v + t[1])
