"""RF-S: the *sense* of the conditions acceptance rests on.

RF-D asks that certain tests gate acceptance and depend on certain inputs, RF-W which combinations of inputs are tested.  Neither says which
way a test has to come out: `if lhs != rhs { return true }`, `v <= 0` for `v < 0`, `>` for `>=` at the end of a range keep every test in place, on
the same operands.  Here every comparison an accept path of an entry point passes - with the outcome it has on that path - is written as a
relation between its two sides:

    a < b   a <= b   a == b   a != b      (`!(a >= b)`, `b > a`, `a.cmp(&b) == Less`, `a < b` are the same relation)

with each side named by the inputs it is computed from (parameters with their members, ciphersuite constants) or, for a literal, by its value.
Under a quantifier the relation is the one that holds *for every element* (`any(P)` false, `all(P)` true).  The relations of a reviewed tree are
tabled (bin/gen_accept_senses.py); every tabled relation has to hold on the current tree.  New relations are RF-W's business, not this rule's.
What is not decided: arithmetic inside a side (`2^(le - 1)` against `2^(le - 2)`: same inputs) - for CL03 the bit-length rules look at those."""
import json, os
from framework import Ob, AnchorMissing
from rf_gates import resolve_fn
from dep import strip, label_of
import rf_gatesets

TABLE_FILE = os.path.join(os.path.dirname(os.path.abspath(__file__)), 'accept_senses.json')
ORDER = {'lt': ('<', False), 'le': ('<=', False), 'gt': ('<', True), 'ge': ('<=', True), 'Lt': ('<', False), 'Le': ('<=', False), 'Gt': ('<', True), 'Ge': ('<=', True)}
NEG = {'<': '<=', '<=': '<'}          # !(a < b) = b <= a : relation of the swapped pair


def _side(body, atoms):
    names, lits = set(), set()
    for a in atoms:
        st = strip(a)
        # how the input enters the side: as itself (ring operations only), through some other function of it (`~`: a bit length, a power, a
        # conversion), reduced modulo something (`%`), through a digest (`h:`) - a range given by bit length is another comparison than the
        # range given by its end points, although both read the same inputs
        mark = {'N': '~', 'M': '%', 'H': 'h:'}.get(label_of(a), '')
        if st[0] == 'p':
            nm = body.local_name(st[1]) or 'p%d' % st[1]
            q = [x for x in st[2] if not str(x).isdigit()]
            lab = nm + ''.join('.' + str(x) for x in q[:2])
            if a[0] in ('len',) or (a[0] in ('nr', 'mod', 'h') and a[1][0] == 'len'):
                lab = 'len(%s)' % lab
                mark = ''
            names.add(mark + lab)
        elif st[0] == 'a':
            names.add(mark + str(st[1]).split('::')[-1])
        elif st[0] == 'c':
            lits.add(str(st[1]).split('::')[-1])
        elif st[0] == 'o':
            names.add('o:' + str(st[1]).split('::')[-1])
    if names:
        return tuple(sorted(names))
    return tuple('#' + x for x in sorted(lits)) if lits else ('#',)


def relation_of(body, g):
    """(relation, side, side) of one test with the outcome it has on the accept path, or None when it is not a comparison of two sides"""
    if g.kind not in ('cmp', 'call') or len(g.operands) < 2:
        return None
    w = (g.what or '').split('::')[-1]
    ops = g.operands
    if g.kind == 'call' and w in ('cmp', 'partial_cmp') and g.const_ops:
        c = str(g.const_ops[-1])
        w = 'gt' if 'Greater' in c else 'lt' if 'Less' in c else 'eq' if 'Equal' in c else w
    tv = g.truth
    each = ''
    if g.quant:
        q = g.quant.split('::')[-1]
        each = 'each:'
        if not ((q == 'any' and g.truth is False) or (q == 'all' and g.truth is True)):
            tv = None
        if '{closure' not in (g.fn or ''):
            tv = None      # a test inside a function the predicate hands the element to: its own outcome there is not what the quantifier's outcome says
    a, b = _side(body, ops[0]), _side(body, ops[-1] if len(ops) == 2 else ops[1])
    if w in ORDER:
        rel, swap = ORDER[w]
        if swap:
            a, b = b, a
        if tv is None:
            return (each + '?' + rel, a, b)
        if tv is False:
            rel, a, b = NEG[rel], b, a
        return (each + rel, a, b)
    if w in ('eq', 'ne', 'Eq', 'Ne'):
        if tv is None:
            return (each + '?==', ) + tuple(sorted([a, b]))
        holds = tv if w in ('eq', 'Eq') else (not tv)
        return (each + ('==' if holds else '!='), ) + tuple(sorted([a, b]))
    if w in ('is_zero', 'is_identity', 'is_none', 'is_some', 'is_empty', 'contains', 'is_probably_prime') and tv is not None:
        return (each + ('' if tv else '!') + w, a, ())
    return None


def senses(ctx, cfg, path):
    prog, ga = ctx.prog(cfg), ctx.gates_modular(cfg)
    body = prog.bodies[path]
    out = set()
    aps = ga.accept_paths(path)
    for ap in aps:
        here = set()
        for g in ap['gates']:
            if g.kind == 'deleg' or g.dom is False:
                continue
            r = relation_of(body, g)
            if r is not None:
                here.add(r)
        out.add(frozenset(here))
    # what holds on *every* accept path
    if not out:
        return set()
    common = None
    for s in out:
        common = set(s) if common is None else (common & s)
    return common


def load_table():
    with open(TABLE_FILE) as f:
        raw = json.load(f)
    return {k: {tuple(tuple(y) if isinstance(y, list) else y for y in x) for x in v} for k, v in raw.items()}


def _fmt(r):
    op = r[0][5:] if r[0].startswith('each:') else r[0]
    if len(r) == 3 and op.lstrip('?') in ('<', '<=', '==', '!='):
        return '%s %s %s' % ('+'.join(r[1]) or '-', r[0], '+'.join(r[2]) or '-')
    return '%s(%s)' % (r[0], '+'.join(r[1]))


def _op(r):
    return r[0][5:] if r[0].startswith('each:') else r[0]


def _family(op):
    op = op.lstrip('?')
    return 'order' if op in ('<', '<=') else 'equality' if op in ('==', '!=') else op.lstrip('!')


def _compat(a, b):
    """two descriptions of one side of a comparison.  A literal side is its value.  A side computed from inputs is named by an over-approximation of
    what it depends on, which grows and shrinks with the form of the code (a helper that takes the whole list, a bound hoisted into a variable):
    two such sides agree when each name of one of them has a counterpart in the other - the same input, or a member / the whole of it."""
    lit_a, lit_b = all(x.startswith('#') for x in a), all(x.startswith('#') for x in b)
    if lit_a or lit_b:
        return lit_a and lit_b and set(a) == set(b)

    def rel(x, y):
        return x == y or x.startswith(y + '.') or y.startswith(x + '.') or x == 'len(%s)' % y or y == 'len(%s)' % x

    return all(any(rel(x, y) for y in b) for x in a) or all(any(rel(x, y) for x in a) for y in b)


def holds(r, now):
    """is the tabled relation r among the relations that hold now (the same relation between the same sides, however the sides are spelled)?"""
    if r in now:
        return True
    op = r[0][5:] if r[0].startswith('each:') else r[0]
    for x in now:
        opx = x[0][5:] if x[0].startswith('each:') else x[0]
        if opx != op or len(x) != len(r):
            continue
        if op in ('==', '!=', '?=='):
            if (_compat(r[1], x[1]) and _compat(r[2], x[2])) or (_compat(r[1], x[2]) and _compat(r[2], x[1])):
                return True
        elif _compat(r[1], x[1]) and (len(r) < 3 or _compat(r[2], x[2]) or (not r[2] and not x[2])):
            return True
    return False


def rule_acceptance_senses(ctx, cfg='prod-all', group='cl03', only=None):
    prog = ctx.prog(cfg)
    table = load_table()
    n = 0
    for e in rf_gatesets.ENTRIES[group]:
        if only and not any(e.endswith(o) for o in only):
            continue
        body = resolve_fn(prog, e)
        if body.path not in table:
            raise AnchorMissing('acceptance relations of %s are not tabled' % body.path)
        now = senses(ctx, cfg, body.path)
        missing = sorted(r for r in table[body.path] if not _op(r).startswith('?') and not holds(r, now))
        n += 1
        # a tabled relation is *turned* when its two sides are still compared - an order with an order, an equality with an equality - but the
        # other way round, with the other strictness, with the opposite outcome, or with an outcome that is no longer the same on every accept
        # path.  A relation that is simply not there any more was re-expressed (a range by its bit length) or removed: RF-D / RF-W / RF-K see
        # removals, re-expressions are not this rule's to judge.
        turned, gone = [], []
        for r in missing:
            fam = _family(_op(r))
            alt = [x for x in now if len(x) == len(r) == 3 and _family(_op(x)) == fam and not (x[0].startswith('each:') and _op(x).startswith('?')) and
                   ((_compat(r[1], x[1]) and _compat(r[2], x[2])) or (_compat(r[1], x[2]) and _compat(r[2], x[1])))]
            (turned if alt else gone).append({'tabled': _fmt(r), 'now': [_fmt(x) for x in alt][:3]})
        yield Ob('RF-S', '%s#acceptance-senses' % body.path, not turned,
                 'every comparison acceptance rested on still holds the same way round, with the same strictness and the same outcome on every accept path',
                 body.span, fact={'tabled': len(table[body.path]), 'holding_now': len(now), 'turned': turned[:8], 'no_longer_compared_this_way': [g_['tabled'] for g_ in gone][:8]},
                 expected='no tabled relation turned')
    yield Ob('RF-S', 'crate#acceptance-senses-%s' % group, n >= 1, 'entry points examined', '', fact=n, expected='>= 1', nontrivial=False)
