"""RF-S: the *sense* of the conditions acceptance rests on.

RF-D asks that certain tests gate acceptance and depend on certain inputs, RF-W which combinations of inputs are tested.  Neither says which
way a test has to come out: `if lhs != rhs { return true }`, `v <= 0` for `v < 0`, `>` for `>=` at the end of a range keep every test in place, on
the same operands.  Here every comparison an accept path of an entry point passes - with the outcome it has on that path - is written as a
relation between its two sides:

    a < b   a <= b   a == b   a != b      (`!(a >= b)`, `b > a`, `a.cmp(&b) == Less`, `a < b` are the same relation)

with each side named by the inputs it is computed from (parameters with their members, ciphersuite constants) or, for a literal, by its value.
Under a quantifier the relation is the one that holds *for every element* (`any(P)` false, `all(P)` true).  The relations of a reviewed tree are
tabled (bin/gen_accept_senses.py); every tabled relation has to hold on the current tree.  New relations are RF-W's business, not this rule's.
What is not decided: arithmetic inside a side (`2^(le - 1)` against `2^(le - 2)`: same inputs) - for CL03 the bit-length rules look at those."""
import json, os
from framework import Ob, AnchorMissing
from rf_gates import resolve_fn
from dep import strip, label_of
import rf_gatesets

TABLE_FILE = os.path.join(os.path.dirname(os.path.abspath(__file__)), 'accept_senses.json')
ORDER = {'lt': ('<', False), 'le': ('<=', False), 'gt': ('<', True), 'ge': ('<=', True), 'Lt': ('<', False), 'Le': ('<=', False), 'Gt': ('<', True), 'Ge': ('<=', True)}
NEG = {'<': '<=', '<=': '<'}          # !(a < b) = b <= a : relation of the swapped pair


def _side(body, atoms):
    names, lits = set(), set()
    for a in atoms:
        st = strip(a)
        # how the input enters the side: as itself (ring operations only), through some other function of it (`~`: a bit length, a power, a
        # conversion), reduced modulo something (`%`), through a digest (`h:`) - a range given by bit length is another comparison than the
        # range given by its end points, although both read the same inputs
        mark = {'N': '~', 'M': '%', 'H': 'h:'}.get(label_of(a), '')
        if st[0] == 'p':
            nm = body.local_name(st[1]) or 'p%d' % st[1]
            q = [x for x in st[2] if not str(x).isdigit()]
            lab = nm + ''.join('.' + str(x) for x in q[:4])
            if a[0] in ('len',) or (a[0] in ('nr', 'mod', 'h') and a[1][0] == 'len'):
                lab = 'len(%s)' % lab
                mark = ''
            names.add(mark + lab)
        elif st[0] == 'a':
            names.add(mark + str(st[1]).split('::')[-1])
        elif st[0] == 'c':
            lits.add(str(st[1]).split('::')[-1])
        elif st[0] == 'o':
            names.add('o:' + str(st[1]).split('::')[-1])
    if names:
        return tuple(sorted(names))
    return tuple('#' + x for x in sorted(lits)) if lits else ('#',)


UNARY = ('is_zero', 'is_identity', 'is_none', 'is_some', 'is_empty', 'is_ok', 'is_err', 'is_torsion_free', 'is_on_curve')


def _envs():
    def v1(name):
        return 7 + sum(ord(c) for c in name) % 13

    def v2(name):
        return 23 + sum(3 * ord(c) + 1 for c in name) % 17
    return (v1, v2)


def _const_eval(fd, op, val, depth=0):
    """value of an operand computed from literals and ciphersuite constants only (`Integer::from(2).pow(CS::le - 1)`), the constants replaced by
    val(name); None when it reads anything else or cannot be followed"""
    if op is None or depth > 16:
        return None
    if op.get('k') == 'const':
        if 'int' in op:
            try:
                return int(op['int'])
            except ValueError:
                return None
        nm = str(op.get('uneval') or op.get('disp') or '').split('::')[-1]
        # numeric parameters of a ciphersuite (le, lm, ln, ls, t, l, ..): group constants (IDENTITY, ZERO, GENERATOR) are values, not numbers
        return val(nm) if nm.isidentifier() and (nm.islower() or nm == 'SECPARAM') and str(op.get('ty', '')) in ('u32', 'usize', 'u64', 'i32', '') else None
    if op.get('k') not in ('copy', 'move'):
        return None
    pl = op['pl']
    ps = [q for q in pl.get('p') or [] if q.get('k') != 'deref']
    if ps and not (len(ps) == 1 and ps[0].get('k') == 'field' and str(ps[0].get('n')) == '0'):
        return None
    ds = [d for d in fd.defs.get(pl['l'], []) if not d[2].get('dst', {}).get('p')]
    if len(ds) != 1:
        return None
    kind, _bi, x = ds[0]
    if kind == 'assign':
        rv = x['rv']
        if rv['k'] in ('use', 'cast'):
            return _const_eval(fd, rv['op'], val, depth + 1)
        if rv['k'] == 'ref':
            return _const_eval(fd, {'k': 'copy', 'pl': rv['pl']}, val, depth + 1)
        if rv['k'] == 'binop':
            a, b = _const_eval(fd, rv['a'], val, depth + 1), _const_eval(fd, rv['b'], val, depth + 1)
            if a is None or b is None:
                return None
            o = rv['op'].replace('WithOverflow', '').replace('Unchecked', '')
            try:
                return {'Add': a + b, 'Sub': a - b, 'Mul': a * b, 'Shl': a << b if 0 <= b < 4096 else None, 'Div': a // b if b else None}.get(o)
            except (TypeError, ValueError):
                return None
        return None
    cal = x.get('callee') or ''
    short = cal.split('::')[-1]
    args = x.get('args') or []
    if short in ('from', 'into', 'complete', 'clone', 'to_owned', 'deref', 'borrow') and args:
        return _const_eval(fd, args[0], val, depth + 1)
    vs = [_const_eval(fd, a, val, depth + 1) for a in args]
    if any(v is None for v in vs) or not vs:
        return None
    try:
        if short == 'pow' and len(vs) == 2 and 0 <= vs[1] < 4096:
            return vs[0] ** vs[1]
        if short in ('shl',) and len(vs) == 2 and 0 <= vs[1] < 4096:
            return vs[0] << vs[1]
        if short == 'add' and len(vs) == 2:
            return vs[0] + vs[1]
        if short == 'sub' and len(vs) == 2:
            return vs[0] - vs[1]
        if short == 'mul' and len(vs) == 2:
            return vs[0] * vs[1]
        if short == 'neg' and len(vs) == 1:
            return -vs[0]
    except (TypeError, ValueError, OverflowError):
        return None
    return None


def _const_side(eng, g, i, atoms):
    """a side that is a function of ciphersuite constants only: named by the constants it reads and by its value at two assignments of them
    (`2^(le - 1)` and `2^(le - 2)` read the same constant and are different bounds)"""
    if not g.oargs or i >= len(g.oargs) or any(strip(a)[0] in ('p', 'o', 's') for a in atoms):
        return None
    names = sorted({str(strip(a)[1]).split('::')[-1] for a in atoms if strip(a)[0] == 'a'})
    if not names:
        return None
    fd = eng.fndep(g.fn) if g.fn else None
    if fd is None:
        return None
    vals = []
    for val in _envs():
        v = _const_eval(fd, g.oargs[i], val)
        if v is None:
            return None
        vals.append(v % (2 ** 61 - 1))
    return ('=' + '+'.join(names),) + tuple('@%d' % v for v in vals)


def _pred_tag(eng, g, i):
    """an operand that is the verdict of a nullary predicate on an input (`x.is_some()`, `v.is_empty()`): the predicate's name - `a.is_some() !=
    b.is_some()` and `a.is_none() != b.is_some()` read the same inputs"""
    if not g.oargs or i >= len(g.oargs) or not g.fn:
        return None
    fd = eng.fndep(g.fn)
    op = g.oargs[i]
    for _ in range(6):
        if fd is None or op is None or op.get('k') not in ('copy', 'move') or op['pl'].get('p'):
            return None
        ds = fd.defs.get(op['pl']['l'], [])
        if len(ds) != 1:
            return None
        kind, _b, x = ds[0]
        if kind == 'assign' and x['rv'].get('k') in ('use', 'cast'):
            op = x['rv']['op']
            continue
        if kind == 'assign' and x['rv'].get('k') == 'ref':
            op = {'k': 'copy', 'pl': {'l': x['rv']['pl']['l']}}
            continue
        if kind == 'call':
            short = (x.get('callee') or '').split('::')[-1]
            return short if short in ('is_some', 'is_none', 'is_empty', 'is_ok', 'is_err', 'is_zero', 'is_identity') else None
        return None
    return None


def relation_of(body, g, eng=None):
    """(relation, side, side) of one test with the outcome it has on the accept path, or None when it is not a comparison of two sides"""
    if g.kind not in ('cmp', 'call') or not g.operands:
        return None
    w = (g.what or '').split('::')[-1]
    if len(g.operands) == 1:
        # a predicate of one value (`point.is_none()`, `s.is_zero()`): which verdict lets the function go on
        if w in UNARY and g.truth is not None and not g.quant:
            return (('' if g.truth else '!') + w, _side(body, g.operands[0]), ())
        return None
    ops = g.operands
    if g.kind == 'call' and w in ('cmp', 'partial_cmp') and g.const_ops:
        c = str(g.const_ops[-1])
        w = 'gt' if 'Greater' in c else 'lt' if 'Less' in c else 'eq' if 'Equal' in c else w
    tv = g.truth
    each = ''
    handed_on = False
    if g.quant:
        q = g.quant.split('::')[-1]
        each = 'each:'
        if not ((q == 'any' and g.truth is False) or (q == 'all' and g.truth is True)):
            tv = None
        if '{closure' not in (g.fn or ''):
            tv = None      # a test inside a function the predicate hands the element to: its own outcome there is not what the quantifier's outcome says
            handed_on = True
        elif tv is not None and isinstance(g.chain, str) and g.chain.startswith('in:'):
            # the predicate is `a && b` / `a || b`: its verdict fixes one part only when it is true (and) / false (or)
            pv = (q == 'all')         # the predicate's verdict for every element
            kinds = g.chain[3:].split(',')
            if any(k == 'mixed' or (k == 'and' and not pv) or (k == 'or' and pv) for k in kinds):
                tv = None
    a, b = _side(body, ops[0]), _side(body, ops[-1] if len(ops) == 2 else ops[1])
    if eng is not None and g.kind == 'call':
        ca, cb = _const_side(eng, g, 0, ops[0]), _const_side(eng, g, 1, ops[1])
        a, b = ca or a, cb or b
    if eng is not None and g.kind in ('call', 'cmp') and g.oargs:
        ta, tb = _pred_tag(eng, g, 0), _pred_tag(eng, g, 1)
        if ta:
            a = tuple('%s?%s' % (x, ta) for x in a)
        if tb:
            b = tuple('%s?%s' % (x, tb) for x in b)
    if w in ORDER:
        rel, swap = ORDER[w]
        if swap:
            a, b = b, a
        if tv is None:
            return (each + ('?~' if handed_on else '?') + rel, a, b)
        if tv is False:
            rel, a, b = NEG[rel], b, a
        return (each + rel, a, b)
    if w in ('eq', 'ne', 'Eq', 'Ne'):
        if tv is None:
            return (each + ('?~==' if handed_on else '?=='), ) + tuple(sorted([a, b]))
        holds = tv if w in ('eq', 'Eq') else (not tv)
        return (each + ('==' if holds else '!='), ) + tuple(sorted([a, b]))
    if w in ('is_zero', 'is_identity', 'is_none', 'is_some', 'is_empty', 'contains', 'is_probably_prime') and tv is not None:
        return (each + ('' if tv else '!') + w, a, ())
    return None


def _unfixed(g):
    import copy
    g2 = copy.copy(g)
    g2.truth = None
    return g2


def senses(ctx, cfg, path, per_path=False):
    prog, ga = ctx.prog(cfg), ctx.gates_modular(cfg)
    body = prog.bodies[path]
    out = set()
    aps = ga.accept_paths(path)
    if not aps and not body.local_ty(0).startswith(('std::result::Result', 'std::option::Option', 'bool')):
        # a function that hands back a value or nothing: it "accepts" when it returns at all (its refusals are panics) - what every return
        # has passed, in the function itself
        fd = ga.eng.fndep(path)
        rets = [bi for bi, blk in enumerate(body.blocks) if blk['term']['k'] == 'return' and not blk['cleanup']]
        aps = [{'block': bi, 'kind': 'return', 'gates': ga.block_gates(fd, bi)} for bi in rets]
    for ap in aps:
        here = set()
        for g in ap['gates']:
            if g.kind == 'deleg':
                continue
            if g.dom is False:
                # a test that only some of the ways to this accept site pass (`if a && b { refuse }`: going on says `!a` or `!b`, not both): its
                # outcome is not fixed there
                g = _unfixed(g)
            r = relation_of(body, g, ga.eng)
            if r is not None:
                here.add(r)
        out.add(frozenset(here))
    if per_path:
        return [set(s_) for s_ in out]
    # what holds on *every* accept path
    if not out:
        return set()
    common = None
    for s in out:
        common = set(s) if common is None else (common & s)
    return common


def load_table():
    with open(TABLE_FILE) as f:
        raw = json.load(f)
    return {k: {tuple(tuple(y) if isinstance(y, list) else y for y in x) for x in v} for k, v in raw.items()}


def _fmt(r):
    op = r[0][5:] if r[0].startswith('each:') else r[0]
    if len(r) == 3 and op.lstrip('?') in ('<', '<=', '==', '!='):
        return '%s %s %s' % ('+'.join(r[1]) or '-', r[0], '+'.join(r[2]) or '-')
    return '%s(%s)' % (r[0], '+'.join(r[1]))


def _op(r):
    return r[0][5:] if r[0].startswith('each:') else r[0]


def _family(op):
    op = op.lstrip('?~')
    fam = {'is_none': 'presence', 'is_some': 'presence', 'is_ok': 'result', 'is_err': 'result'}
    return 'order' if op in ('<', '<=') else 'equality' if op in ('==', '!=') else fam.get(op.lstrip('!'), op.lstrip('!'))


def _compat(a, b, loose=False):
    """two descriptions of one side of a comparison.  A literal side is its value.  A side computed from inputs is named by an over-approximation of
    what it depends on, which grows and shrinks with the form of the code (a helper that takes the whole list, a bound hoisted into a variable):
    two such sides agree when each name of one of them has a counterpart in the other - the same input, or a member / the whole of it."""
    lit_a, lit_b = all(x.startswith('#') for x in a), all(x.startswith('#') for x in b)
    if lit_a or lit_b:
        return lit_a and lit_b and set(a) == set(b)
    fa, fb = bool(a) and a[0].startswith('='), bool(b) and b[0].startswith('=')
    if fa or fb:
        # a bound that is a function of ciphersuite constants: the same bound when it has the same values; `loose` (looking for a relation
        # that was turned) it is enough that both are bounds in the same constants
        if fa and fb:
            return a == b or (loose and a[0] == b[0])
        plain, fn_ = (b, a) if fa else (a, b)
        return loose and set(x.lstrip('~') for x in plain) == set(fn_[0][1:].split('+'))

    if loose:
        a, b = tuple(x.split('?')[0] for x in a), tuple(x.split('?')[0] for x in b)       # (which predicate was asked of the input is the sense, not the side)

    def rel(x, y):
        return x == y or x.startswith(y + '.') or y.startswith(x + '.') or x == 'len(%s)' % y or y == 'len(%s)' % x

    return all(any(rel(x, y) for y in b) for x in a) or all(any(rel(x, y) for x in a) for y in b)


def holds(r, now):
    """is the tabled relation r among the relations that hold now (the same relation between the same sides, however the sides are spelled)?"""
    if r in now:
        return True
    op = r[0][5:] if r[0].startswith('each:') else r[0]
    for x in now:
        opx = x[0][5:] if x[0].startswith('each:') else x[0]
        if opx != op or len(x) != len(r):
            continue
        if op in ('==', '!=', '?=='):
            if (_compat(r[1], x[1]) and _compat(r[2], x[2])) or (_compat(r[1], x[2]) and _compat(r[2], x[1])):
                return True
        elif _compat(r[1], x[1]) and (len(r) < 3 or _compat(r[2], x[2]) or (not r[2] and not x[2])):
            return True
    return False


BBS_DECODER_SCOPE = ('bbsplus::', 'utils::util::bbsplus_utils', 'utils::message::bbsplus_message')


def bbs_decoders(prog):
    """public functions of the BBS code that turn octets, coordinates or text into a value (`from_bytes*`, `from_coordinates`, `parse_*`, `decode*`)"""
    out = []
    for p, b in sorted(prog.bodies.items()):
        if not p.startswith(BBS_DECODER_SCOPE) or b.from_expansion or b.kind == 'Closure' or '::tests::' in p:
            continue
        last = p.split('::')[-1]
        if last.startswith(('from_bytes', 'from_coordinates', 'parse_', 'decode', 'from_hex', 'octets_to')):
            out.append(p)
    return out


def other_functions(prog, scope=('cl03::', 'utils::random')):
    """the public functions of the scope that are no verifier entry point (issuing, committing, decoding, key handling)"""
    entries = {resolve_fn(prog, e).path for es in rf_gatesets.ENTRIES.values() for e in es}
    return [p for p, b in sorted(prog.bodies.items()) if p.startswith(scope) and not b.from_expansion and b.kind != 'Closure' and b.is_pub
            and '::tests::' not in p and p not in entries]


def rule_acceptance_senses(ctx, cfg='prod-all', group='cl03', only=None, scope=None, floor=1, strict=True):
    prog = ctx.prog(cfg)
    table = load_table()
    n = 0
    if scope is not None:
        # the other public functions of a module: what every normal return of theirs has passed (their refusals are panics)
        todo = [p for p in table if p.startswith(scope) and p in prog.bodies and p in (set(other_functions(prog)) | set(bbs_decoders(prog)))]
        missing_fns = [p for p in table if p.startswith(scope) and p not in prog.bodies and not any(p == resolve_fn(prog, e).path for es in rf_gatesets.ENTRIES.values() for e in es)]
    else:
        todo = [e for e in rf_gatesets.ENTRIES[group] if not only or any(e.endswith(o) for o in only)]
        missing_fns = []
    for e in todo:
        body = resolve_fn(prog, e) if scope is None else prog.bodies[e]
        if body.path not in table:
            raise AnchorMissing('acceptance relations of %s are not tabled' % body.path)
        paths = senses(ctx, cfg, body.path, per_path=True)
        now = set()
        for ps_ in paths:
            now |= ps_
        # a tabled relation has to hold on every accept path (a refusal turned into `return true` opens a path on which the opposite holds)
        missing = sorted(r for r in table[body.path] if not _op(r).startswith('?') and not all(holds(r, ps_) for ps_ in paths))
        n += 1
        # a tabled relation is *turned* when its two sides are still compared - an order with an order, an equality with an equality - but the
        # other way round, with the other strictness, with the opposite outcome, or with an outcome that is no longer the same on every accept
        # path.  A relation that is simply not there any more was re-expressed (a range by its bit length) or removed: RF-D / RF-W / RF-K see
        # removals, re-expressions are not this rule's to judge.
        turned, gone = [], []
        for r in missing:
            fam = _family(_op(r))
            alt = [x for x in now if not holds(r, {x}) and len(x) == len(r) == 3 and _family(_op(x)) == fam and not _op(x).startswith('?~') and
                   ((_compat(r[1], x[1], True) and _compat(r[2], x[2], True)) or (_compat(r[1], x[2], True) and _compat(r[2], x[1], True)))]
            some = sum(1 for ps_ in paths if holds(r, ps_))
            if not strict:
                # code that the fixture vectors run, with counts and positions decided exactly by the region rule (RF-V): only an equality or a
                # predicate whose outcome is now *known* to be the other one counts (an order between machine integers changes strictness with
                # every `- 1` moved to the other side; an outcome the analysis cannot fix is not evidence here)
                alt = [x for x in alt if not _op(x).startswith('?')] if fam != 'order' else []
                some = 0
            if alt:
                turned.append({'tabled': _fmt(r), 'now': [_fmt(x) for x in alt][:3]})
            elif some:
                turned.append({'tabled': _fmt(r), 'now': 'holds on %d of %d accept paths only' % (some, len(paths))})
            else:
                gone.append({'tabled': _fmt(r), 'now': []})
        yield Ob('RF-S', '%s#acceptance-senses' % body.path, not turned,
                 'every comparison acceptance rested on still holds the same way round, with the same strictness and the same outcome on every accept path',
                 body.span, fact={'tabled': len(table[body.path]), 'accept_paths': len(paths), 'turned': turned[:8], 'no_longer_compared_this_way': [g_['tabled'] for g_ in gone][:8]},
                 expected='no tabled relation turned')
    yield Ob('RF-S', 'crate#acceptance-senses-%s' % (group if scope is None else '+'.join(scope)), n >= floor, 'functions examined', '',
             fact={'examined': n, 'tabled_functions_not_found': missing_fns[:4]}, expected='>= %d' % floor, nontrivial=False)
