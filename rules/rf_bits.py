"""RF-H: blinding-length arithmetic of the CL03 sigma protocols (C19), RF-Q / construction shapes of CL03 key and
parameter generation (C18).  A bit-length abstract domain over the MIR: random_bits(n) -> n, digest -> 256,
product -> sum, sum -> max + 1; lengths are the ciphersuite constants evaluated per suite."""
from framework import Ob, AnchorMissing
from flow import local_target, classify_switch
from rf_gates import resolve_fn
from dep import strip, fmt_atoms, fmt_atom

SP = 'cl03::sigma_protocols::'
GEN_FNS = [SP + 'NISP2Commitments::nisp2_generate_proof_MultiSecrets', SP + 'NISPSecrets::nisp2sec_generate_proof',
           SP + 'NISPMultiSecrets::nispMultiSecrets_generate_proof', SP + 'NISPSignaturePoK::nisp5_MultiAttr_generate_proof']

PASS = ('std::clone::Clone::clone', 'std::convert::From::from', 'rug::Complete::complete', 'std::borrow::ToOwned::to_owned', 'std::ops::Deref::deref',
        'std::convert::Into::into', 'std::borrow::Borrow::borrow', 'std::convert::AsRef::as_ref', "std::borrow::Cow::<'_, B>::into_owned")


def origin_call(zf, l, depth=0):
    """follow whole copies / moves back to the call that produced the value held in local l"""
    for _ in range(8):
        d = zf.single_def(l)
        if d is None:
            return None
        if d[0] == 'call':
            return d[2]
        rv = d[2].get('rv', {})
        if rv.get('k') in ('use', 'cast') and rv['op']['k'] in ('copy', 'move') and not rv['op']['pl'].get('p'):
            l = rv['op']['pl']['l']
            continue
        if rv.get('k') == 'ref' and not rv['pl'].get('p'):
            l = rv['pl']['l']
            continue
        return None
    return None


class Bits:
    def __init__(self, ctx, cfg, fn, suite, parent=None):
        self.ctx, self.cfg = ctx, cfg
        self.prog, self.eng, self.za = ctx.prog(cfg), ctx.eng(cfg), ctx.zone(cfg)
        self.body = self.prog.bodies[fn]
        self.fd = self.eng.fndep(fn)
        self.zf = self.za.zf(fn)
        self.suite = suite      # {const name: int}
        self.memo = {}
        self.parent = parent    # for a closure body: the Bits of the function that creates it
        self._children = {}

    def child(self, cpath):
        if cpath not in self._children:
            self._children[cpath] = Bits(self.ctx, self.cfg, cpath, self.suite, parent=self)
        return self._children[cpath]

    def _closure_value(self, root, path, depth):
        """bits of a place rooted in the environment (_1) or in the element argument of a closure, read in the creating function"""
        cctx = self.zf.closure_ctx()
        if cctx is None or self.parent is None:
            return None
        pzf, cb, caps, consumer = cctx
        if root == 1:
            if not path or not str(path[0]).isdigit() or int(path[0]) >= len(caps):
                return None
            cop = caps[int(path[0])]
            if cop['k'] not in ('copy', 'move'):
                return self.parent.bits_op(cop, depth + 1)
            pl = {'l': cop['pl']['l'], 'p': list(cop['pl'].get('p', [])) + [{'k': 'field', 'n': q, 'adt': ''} for q in path[1:]]}
            return self.parent.bits_place(pl, depth + 1)
        if consumer is None:
            return None
        bi, t = consumer
        if not (t.get('callee') or '').startswith('std::iter::Iterator::') or not t['args']:
            return None
        want = 3 if (t.get('callee') or '').endswith(('::fold', '::try_fold')) else 2
        if root != want:
            return None
        comps = pzf.iter_components(t['args'][0])
        if not comps:
            return None
        rest = list(path)
        n = 0
        if len(comps) > 1:
            if not rest or not str(rest[0]).isdigit():
                return None
            n = int(rest.pop(0))
        if n >= len(comps) or comps[n] is None or comps[n][0] not in ('cont', 'call', 'same'):
            return None
        cl = comps[n][1] if comps[n][0] in ('cont', 'call') else comps[n][2]
        pl = {'l': cl, 'p': [{'k': 'field', 'n': q, 'adt': ''} for q in rest]}
        b = self.parent.bits_place(pl, depth + 1)
        if b is None:
            return None
        return b

    def const_val(self, op):
        if op['k'] != 'const':
            return None
        if 'int' in op:
            return int(op['int'])
        if 'uneval' in op:
            n = op['uneval'].split('::')[-1]
            if n in self.suite:
                return self.suite[n]
        return None

    def field_bits(self, ty_hint, path):
        s = self.suite
        if not path:
            return s['ln']          # a bare Integer parameter: base / modulus / exponent bounded by the modulus
        last = path[-1]
        if last == 'value' and len(path) >= 1 and 'commitment' not in ''.join(path[:-1]).lower() and ty_hint.endswith('CL03Message') or (last == 'value' and 'CL03Message' in ty_hint):
            return s['lm']
        if last == 'e':
            return s['le']
        if last == 's':
            return s['ls'] + 1
        if last == 'randomness':
            return s['ln']
        if last == 'value':
            return s['ln']
        return s['ln']

    def _bits_from_def(self, d, name, path, depth):
        res = None
        kind, bi, x = d
        if kind == 'call':
            cal = x.get('callee') or ''
            tgt = local_target(self.eng, x) or ''
            args = x['args']
            if tgt.endswith('random_bits'):
                v = self.const_val(args[0])
                if v is None:
                    # the mask length is a run-time value (e.g. derived from the size of the secret): it cannot be credited with any
                    # fixed number of bits, and a length that follows the secret leaks its size by itself
                    self.nonconst_masks = getattr(self, 'nonconst_masks', set())
                    self.nonconst_masks.add(name)
                    v = 0
                res = (v, (name,))
                self.masks = getattr(self, 'masks', {})
                self.masks[name] = v
            elif tgt.endswith('rand_int'):
                b = self.bits_op(args[1], depth + 1)
                res = (b[0], (name,)) if b else None
            elif tgt.endswith(('::random_number', '::random_number_below')) and args:
                # uniform below its argument: as many bits as the bound has (`random_number(Integer::from(ln))` is a number below ln, not an
                # ln-bit number)
                b = self.bits_op(args[0], depth + 1)
                res = (b[0], (name,)) if b else (0, (name,))
                self.masks = getattr(self, 'masks', {})
                self.masks[name] = res[0]
            elif cal.endswith('Integer::from_digits'):
                res = (256, (name,))
            elif cal.endswith('array::from_fn') and args and args[-1]['k'] in ('copy', 'move') and not args[-1]['pl'].get('p'):
                # `let [r_1, r_2, ..]: [Integer; K] = std::array::from_fn(|_| random_bits(CS::ln))`: every element is what the closure returns
                ci = self.fd._closure_info(args[-1]['pl']['l'])
                if ci is not None and ci[0] in self.prog.bodies:
                    ch = self.child(ci[0])
                    b = ch.bits_place({'l': 0}, depth + 1)
                    if b is not None:
                        res = (b[0], (name,))
                        if getattr(ch, 'nonconst_masks', None):
                            self.nonconst_masks = getattr(self, 'nonconst_masks', set())
                            self.nonconst_masks.add(name)
                        if getattr(ch, 'masks', None):
                            self.masks = getattr(self, 'masks', {})
                            self.masks[name] = b[0]
            elif cal == 'std::ops::Mul::mul':
                a, b = self.bits_op(args[0], depth + 1), self.bits_op(args[1], depth + 1)
                if a and b:
                    res = (a[0] + b[0], tuple(sorted(set(a[1]) | set(b[1]))))
            elif cal in ('std::ops::Add::add', 'std::ops::Sub::sub'):
                a, b = self.bits_op(args[0], depth + 1), self.bits_op(args[1], depth + 1)
                if a and b:
                    res = (max(a[0], b[0]) + 1, (name,))
            elif cal in PASS and args:
                res = self.bits_op(args[0], depth + 1)
            elif tgt and args and tgt in self.prog.bodies and self.prog.bodies[tgt].kind == 'Closure':
                # a closure of the function called for its value (`let scaled = |k| ..; rand_int(1, scaled(l + t + s1) - 1)`): what it returns; when
                # that cannot be followed the value is credited with no bits at all (a mask bound of unknown size is not a mask)
                ch = self.child(tgt)
                b = ch.bits_place({'l': 0}, depth + 1)
                res = (b[0], (name,)) if b is not None else (0, (name,))
            elif tgt and args:
                summ = self.eng.summary(tgt)
                if summ and summ.get('alias'):
                    res = self.bits_op(args[0], depth + 1)
                else:
                    res = (self.suite['ln'], (name,))
        elif kind == 'assign':
            rv = x['rv']
            if rv['k'] in ('use', 'cast') and rv['op']['k'] in ('copy', 'move', 'const'):
                res = self.bits_op(rv['op'], depth + 1)
            elif rv['k'] == 'ref':
                res = self.bits_place(rv['pl'], depth + 1)
            elif rv['k'] == 'agg' and rv['ak'] == 'adt' and rv['name'].endswith('borrow::Cow') and len(rv.get('ops', [])) == 1:
                res = self.bits_op(rv['ops'][0], depth + 1)        # Cow::Owned(x) / Cow::Borrowed(&x): the integer it holds
            elif rv['k'] == 'agg' and rv['ak'] == 'tuple' and path and path[0].isdigit() and int(path[0]) < len(rv['ops']):
                o = rv['ops'][int(path[0])]
                if o['k'] in ('copy', 'move') and len(path) > 1:
                    res = self.bits_place({'l': o['pl']['l'], 'p': o['pl'].get('p', []) + [{'k': 'field', 'n': q, 'adt': ''} for q in path[1:]]}, depth + 1)
                else:
                    res = self.bits_op(o, depth + 1)
        return res

    def bits_op(self, op, depth=0):
        if op['k'] == 'const':
            v = self.const_val(op)
            return (max(1, int(v).bit_length()), ('c',)) if v is not None else None
        return self.bits_place(op['pl'], depth)

    def bits_place(self, pl, depth=0):
        """returns (bits, factors) where factors is a tuple of leaf names (for products) or a single leaf."""
        if depth > 30:
            return None
        body, fd, zf = self.body, self.fd, self.zf
        root, path = fd.resolve_place(pl)
        if fd.is_param(root) and body.kind == 'Closure':
            v = self._closure_value(root, path, depth)
            if v is not None:
                return v
        if fd.is_param(root):
            ty = body.local_ty(root)
            return (self.field_bits(ty, path), (body.local_name(root) + ''.join('.' + x for x in path),))
        # local
        key = (root, path)
        if key in self.memo:
            return self.memo[key]
        self.memo[key] = None
        res = None
        name = body.local_name(root)
        ty = body.local_ty(root)
        if ty.startswith('std::vec::Vec<rug::Integer'):
            # element bits: max over pushes
            best = None
            for bi, t in body.calls():
                if (t.get('callee') or '') == 'std::vec::Vec::<T, A>::push' and t['args'][0]['k'] in ('copy', 'move') and fd.resolve_place(t['args'][0]['pl'])[0] == root:
                    b = self.bits_op(t['args'][1], depth + 1)
                    if b is None:
                        best = None
                        break
                    if best is None or b[0] > best[0]:
                        best = b
            if best is None:
                # built by `iter.map(closure).collect()`: every element is what the closure returns
                oc = origin_call(zf, root)
                if oc is not None and (oc.get('callee') or '') == 'std::iter::Iterator::collect' and oc['args'] and oc['args'][0]['k'] in ('copy', 'move'):
                    mc = origin_call(zf, oc['args'][0]['pl']['l'])
                    if mc is not None and (mc.get('callee') or '') == 'std::iter::Iterator::map' and len(mc['args']) == 2 and mc['args'][1]['k'] in ('copy', 'move'):
                        ci = fd._closure_info(mc['args'][1]['pl']['l'])
                        if ci is not None:
                            best = self.child(ci[0]).bits_place({'l': 0}, depth + 1)
            res = (best[0], (name + '[]',)) if best else None
            if best is not None:
                self.elem_src = getattr(self, 'elem_src', {})
                self.elem_src[name] = best
        else:
            d = zf.single_def(root)
            if d is not None and path and d[0] == 'call':
                # field of a call result (a commitment returned by commit_*): randomness / value are ln-bit
                res = (self.field_bits('', path), (name + ''.join('.' + x for x in path),))
            elif d is not None:
                res = self._bits_from_def(d, name, path, depth)
            elif not path and not fd.is_param(root):
                # assigned on several paths (`if hidden { random } else { value }`): the longest alternative
                alts = [self._bits_from_def(dd, name, path, depth) for dd in fd.defs.get(root, []) if not dd[2].get('dst', {}).get('p')]
                if alts and all(a is not None for a in alts):
                    best = max(alts, key=lambda a: a[0])
                    res = (best[0], (name,))
        self.memo[key] = res
        return res


def responses(bits):
    """(dst name, mask operand, product operand) for every `mask + product` call whose product contains the challenge."""
    body, zf, fd = bits.body, bits.zf, bits.fd
    out = []
    for bi, t in body.calls():
        if (t.get('callee') or '') != 'std::ops::Add::add' or len(t['args']) != 2:
            continue
        a, b = t['args']
        ba, bb = bits.bits_op(a), bits.bits_op(b)
        if not ba or not bb:
            continue
        # product side: defined by a Mul chain containing a from_digits value named challenge
        def is_product(f):
            return any(x == 'challenge' or x.endswith('.challenge') for x in f[1]) and len(f[1]) >= 2
        if is_product(bb) and not is_product(ba):
            mask, prod = ba, bb
        elif is_product(ba) and not is_product(bb):
            mask, prod = bb, ba
        else:
            continue
        # where does the result go: a named local, or pushed into a named Vec
        dl = t['dst']['l']
        nm = body.local_name(dl)
        if nm.startswith('_'):
            # pushed / completed into something
            for bj, t2 in body.calls():
                if (t2.get('callee') or '') == 'std::vec::Vec::<T, A>::push' and t2['args'][1]['k'] in ('copy', 'move'):
                    r, p = fd.resolve_place(t2['args'][1]['pl'])
                    l2 = t2['args'][1]['pl']['l']
                    chain = set()
                    for _ in range(5):
                        chain.add(l2)
                        d = zf.single_def(l2)
                        if d and d[0] == 'call' and d[2]['args'] and d[2]['args'][0]['k'] in ('copy', 'move'):
                            l2 = d[2]['args'][0]['pl']['l']
                        elif d and d[0] == 'assign' and d[2]['rv'].get('op', {}).get('k') in ('copy', 'move'):
                            l2 = d[2]['rv']['op']['pl']['l']
                        else:
                            break
                    if dl in chain:
                        vr, _ = fd.resolve_place(t2['args'][0]['pl'])
                        nm = body.local_name(vr) + '[]'
            if nm.startswith('_'):
                # `let si = ..; s_5.push(si)` style handled above; otherwise look for a user variable assigned from it
                for bj, s2 in body.stmts():
                    if s2['k'] == 'assign' and s2['rv']['k'] == 'use' and s2['rv']['op']['k'] in ('copy', 'move') and s2['rv']['op']['pl']['l'] == dl \
                            and body.locals[s2['dst']['l']].get('name'):
                        nm = body.locals[s2['dst']['l']]['name']
        out.append((nm, mask, prod, t['line']))
    # responses computed inside a closure that is mapped over the hidden positions and collected into a named vector
    if bits.parent is None:
        for l, rv in sorted(fd.closure_aggs.items()):
            cpath = rv['name']
            if cpath not in bits.prog.bodies:
                continue
            cb = bits.child(cpath)
            cctx = cb.zf.closure_ctx()
            name = None
            if cctx is not None and cctx[3] is not None and (cctx[3][1].get('callee') or '') == 'std::iter::Iterator::map':
                # who receives collect(map(..))
                ml = cctx[3][1]['dst']['l']
                for bj, t2 in body.calls():
                    if (t2.get('callee') or '') == 'std::iter::Iterator::collect' and t2['args'] and t2['args'][0]['k'] in ('copy', 'move') \
                            and fd.base(t2['args'][0]['pl']['l'])[0] == fd.base(ml)[0]:
                        dl = t2['dst']['l']
                        for _ in range(4):
                            if body.locals[dl].get('name'):
                                name = body.locals[dl]['name'] + '[]'
                                break
                            nxt = [s2['dst']['l'] for bk, s2 in body.stmts() if s2['k'] == 'assign' and s2['rv']['k'] == 'use'
                                   and s2['rv']['op']['k'] in ('copy', 'move') and s2['rv']['op']['pl']['l'] == dl and not s2['dst'].get('p')]
                            if not nxt:
                                break
                            dl = nxt[0]
            for (nm2, mask2, prod2, line2) in responses(cb):
                out.append((name or nm2, mask2, prod2, line2))
        # responses computed in a private function of the module the prover hands the work to (`try_generate_proof`, a helper shared by two
        # provers): found there, under the names they have there
        seen = set()
        for bi, t in body.calls():
            tgt = local_target(bits.eng, t)
            if tgt and tgt != body.path and tgt in bits.prog.bodies and tgt not in seen and tgt.startswith('cl03::sigma_protocols::') \
                    and not tgt.endswith(tuple(g.split('::')[-1] for g in GEN_FNS)) and not bits.prog.bodies[tgt].is_pub:
                seen.add(tgt)
                hb = Bits(bits.ctx, bits.cfg, tgt, bits.suite)
                out.extend(responses(hb))
    return out


def rule_response_masking(ctx, cfg='prod-all'):
    prog = ctx.prog(cfg)
    suites = {}
    for ty, cs in prog.impl_consts('CLCiphersuite').items():
        suites[ty.split('::')[-1]] = {n: int(c['int']) for n, c in cs.items() if c.get('int') is not None}
    if len(suites) < 3:
        raise AnchorMissing('CLCiphersuite impls: %s' % sorted(suites))
    total = 0
    for fn in GEN_FNS:
        if fn not in prog.bodies:
            raise AnchorMissing(fn)
        per_suite = {}
        for sname, sv in sorted(suites.items()):
            b = Bits(ctx, cfg, fn, sv)
            per_suite[sname] = responses(b)
        names = [r[0] for r in per_suite[sorted(suites)[0]]]
        total += len(names)
        short = fn.split('::')[-1]
        for i, nm in enumerate(names):
            facts = {}
            ok = True
            for sname in sorted(suites):
                r = per_suite[sname][i]
                mask_bits, chal_bits = r[1][0], 256
                facts[sname] = {'mask_bits': mask_bits if mask_bits else 'not a constant of the suite', 'mask': r[1][1][0], 'product_bits': r[2][0], 'factors': list(r[2][1])}
                if mask_bits < chal_bits + 65:
                    ok = False
            yield Ob('RF-H', '%s#N1:%s' % (fn, nm), ok,
                     'response = mask + challenge * secret: the mask must exceed the 256-bit challenge by 65 bits, otherwise floor(response / challenge) is the secret (up to +1)',
                     '%s L%s' % (prog.bodies[fn].file(), per_suite[sorted(suites)[0]][i][3]), fact=facts, expected='mask_bits >= 321')
        # N2: product-related pairs (secret factors of one response = those of another + one more secret)
        base = per_suite[sorted(suites)[0]]
        for i, ri in enumerate(base):
            for j, rj in enumerate(base):
                fi = set(x for x in ri[2][1] if 'challenge' not in x)
                fj = set(x for x in rj[2][1] if 'challenge' not in x)
                if i != j and fj < fi and len(fi - fj) == 1 and fj:
                    ok = True
                    facts = {}
                    for sname in sorted(suites):
                        a, c = per_suite[sname][i], per_suite[sname][j]
                        facts[sname] = {'numerator': a[0], 'denominator': c[0], 'denominator_mask_bits': c[1][0], 'denominator_product_bits': c[2][0],
                                        'extra_secret': sorted(fi - fj)}
                        if c[1][0] < c[2][0] + 64:
                            ok = False
                    yield Ob('RF-H', '%s#N2:%s/%s' % (fn, ri[0], rj[0]), ok,
                             'two responses whose secrets differ by one factor: the quotient of the responses reveals that factor unless the mask of the denominator dominates its product',
                             prog.bodies[fn].file(), fact=facts, expected='denominator mask_bits >= product_bits + 64')
    yield Ob('RF-H', 'cl03#response-census', total >= 12, 'response sites discovered in the four sigma-protocol provers (16 on the reviewed tree)', '', fact=total, expected='>= 12', nontrivial=False)


RANGE_GEN_FNS = ['cl03::range_proof::Boudot2000RangeProof::proof_same_secret', 'cl03::range_proof::Boudot2000RangeProof::proof_large_interval_specific']


def rule_range_proof_challenge_length(ctx, cfg='prod-all'):
    """Boudot's sub-proofs size their masks as `rand_int(.., 2^(l + t [+ s]) * bound - 1)`: `t` bits of every mask pay for the challenge, which
    the paper takes modulo 2^t.  A response `mask + challenge * secret` whose challenge is the whole 256-bit digest is masked 256 - t bits too
    short: floor(response / challenge) is the secret (up to a few units).  Decided per response of the range-proof provers: the factor that
    comes from the digest passes a reduction (`% 2^t`) before it multiplies the secret, whenever the mask formula contains t."""
    prog, za, eng = ctx.prog(cfg), ctx.zone(cfg), ctx.eng(cfg)
    n = 0
    for fn in RANGE_GEN_FNS:
        b = prog.bodies.get(fn)
        if b is None:
            raise AnchorMissing(fn)
        za.summary(fn)
        zf = za.zf(fn)
        fd = zf.fd
        kt = b.param_index('t')

        def digest_factor(op, depth=0, zf_=None):
            """'raw' / 'reduced' when the operand is (a reduction of) an integer read from a digest - here, or in a local helper that returns it"""
            zf_ = zf_ or zf
            if op.get('k') not in ('copy', 'move') or depth > 6:
                return None
            oc = origin_call(zf_, op['pl']['l'])
            if oc is None:
                return None
            cal = oc.get('callee') or ''
            if cal.endswith('Integer::from_digits'):
                return 'raw'
            if cal == 'std::ops::Rem::rem' and oc['args']:
                inner = digest_factor(oc['args'][0], depth + 1, zf_)
                return 'reduced' if inner else None
            if cal in PASS and oc['args']:
                return digest_factor(oc['args'][0], depth + 1, zf_)
            tgt = local_target(eng, oc)
            if tgt is not None and tgt in prog.bodies and tgt != zf_.body.path:
                za.summary(tgt)
                return digest_factor({'k': 'copy', 'pl': {'l': 0}}, depth + 1, za.zf(tgt))
            return None

        def mask_counts_t(op, depth=0):
            """the mask comes from rand_int whose upper end is computed from a power of two whose exponent depends on parameter t"""
            if op.get('k') not in ('copy', 'move') or depth > 4:
                return False
            oc = origin_call(zf, op['pl']['l'])
            if oc is None:
                return False
            if (local_target(eng, oc) or '').endswith('rand_int') and len(oc['args']) == 2:
                return any(strip(a)[0] == 'p' and (strip(a)[1] == kt or (strip(a)[2] and strip(a)[2][-1] == 't')) for a in fd.read_op(oc['args'][1]))
            if (oc.get('callee') or '') in PASS and oc['args']:
                return mask_counts_t(oc['args'][0], depth + 1)
            return False

        for bi, t in b.calls():
            if (t.get('callee') or '') != 'std::ops::Add::add' or len(t['args']) != 2:
                continue
            for mask, prod in ((t['args'][0], t['args'][1]), (t['args'][1], t['args'][0])):
                if prod.get('k') not in ('copy', 'move'):
                    continue
                pc = origin_call(zf, prod['pl']['l'])
                if pc is None or (pc.get('callee') or '') != 'std::ops::Mul::mul' or len(pc['args']) != 2:
                    continue
                kinds = [digest_factor(a) for a in pc['args']]
                if not any(kinds) or not mask_counts_t(mask):
                    continue
                n += 1
                nm = b.local_name(t['dst']['l'])
                if nm.startswith('_'):
                    for bj, s2 in b.stmts():
                        if s2['k'] == 'assign' and s2['rv']['k'] == 'use' and s2['rv']['op']['k'] in ('copy', 'move') and s2['rv']['op']['pl']['l'] == t['dst']['l'] \
                                and b.locals[s2['dst']['l']].get('name'):
                            nm = b.locals[s2['dst']['l']]['name']
                kind = [k for k in kinds if k][0]
                yield Ob('RF-H', '%s#challenge-length:%s' % (fn, nm), kind == 'reduced',
                         'the mask of the response provides t bits for the challenge: the challenge that multiplies the secret is the digest reduced modulo 2^t, not the whole digest',
                         '%s L%s' % (b.file(), t.get('line')), fact={'challenge_factor': kind, 'response': nm}, expected='reduced modulo 2^t')
    yield Ob('RF-H', 'cl03#range-proof-responses', n >= 3, 'responses of the range-proof provers examined', '', fact=n, expected='>= 3', nontrivial=False)


# ---------------------------------------------------------------------------------------- C18
def _loops_with_call(body, eng, suffix):
    out = []
    for h, blocks in body.natural_loops():
        for x in blocks:
            t = body.blocks[x]['term']
            if t['k'] == 'call' and ((local_target(eng, t) or '').endswith(suffix) or (t.get('callee') or '').endswith(suffix)):
                out.append((h, blocks))
                break
    return out


def lift_term(ctx, cfg, fr, term):
    """express a term of frame `fr` in the symbols of the entry point of the walk (parameters through call arguments,
    closure captures through the captured operands)."""
    from flow import ClosureFrame
    from zone import tadd
    za = ctx.zone(cfg)
    for _ in range(12):
        if term is None or term[0] is None or fr.parent is None:
            return term
        sym, c = term
        pz = za.zf(fr.parent.path)
        if isinstance(fr, ClosureFrame):
            if sym.startswith('cap') and sym[3:].isdigit() and fr.caps is not None and int(sym[3:]) < len(fr.caps):
                term = tadd(pz.term_op(fr.caps[int(sym[3:])]), c)
                fr = fr.parent
                continue
            return term
        if sym.startswith('p') and sym[1:].isdigit() and fr.call is not None and int(sym[1:]) - 1 < len(fr.call['args']):
            term = tadd(pz.term_op(fr.call['args'][int(sym[1:]) - 1]), c)
            fr = fr.parent
            continue
        return term
    return term


def _slice_callees(b, fd, ops, limit=400):
    """last path segments of every callee in the backward def-use slice of the operands (within the body)"""
    seen, names = set(), set()
    st = [o['pl']['l'] for o in ops if o['k'] in ('copy', 'move')]
    while st and len(seen) < limit:
        l = st.pop()
        if l in seen:
            continue
        seen.add(l)
        for kind, bi, x in fd.defs.get(l, []):
            if kind == 'assign':
                rv = x['rv']
                for o in [rv.get('op'), rv.get('a'), rv.get('b')] + list(rv.get('ops') or []):
                    if isinstance(o, dict) and o.get('k') in ('copy', 'move'):
                        st.append(o['pl']['l'])
                if rv.get('pl'):
                    st.append(rv['pl']['l'])
            elif kind == 'call':
                names.add((x.get('callee') or '').split('::')[-1])
                for o in x['args']:
                    if o.get('k') in ('copy', 'move'):
                        st.append(o['pl']['l'])
        # a buffer that is written through a mutable reference (`buf.assign(x.gcd_ref(n))`): the writing call defines what is read from it later
        key = _place_key(fd, l)
        if key is not None:
            for bi, t in b.calls():
                a0 = (t.get('args') or [None])[0]
                if not a0 or a0.get('k') not in ('copy', 'move') or a0['pl'].get('p'):
                    continue
                d = [x for kind, _, x in fd.defs.get(a0['pl']['l'], []) if kind == 'assign']
                if len(d) == 1 and d[0]['rv'].get('k') == 'ref' and d[0]['rv'].get('mut') and _place_key(fd, d[0]['rv']['pl']['l']) == key:
                    names.add((t.get('callee') or '').split('::')[-1])
                    for o in t['args'][1:]:
                        if o.get('k') in ('copy', 'move'):
                            st.append(o['pl']['l'])
    return names


def _place_key(fd, l):
    """identity of the storage a local stands for: the local itself when it is a variable of the body, or the captured variable of the
    enclosing function a closure reads it from (`copy (*_1).i`)"""
    d = [x for kind, _, x in fd.defs.get(l, []) if kind == 'assign']
    if not d:
        return ('local', l)
    if len(d) == 1 and d[0]['rv'].get('k') == 'use':
        o = d[0]['rv']['op']
        if o.get('k') in ('copy', 'move') and o['pl']['l'] == 1:
            f = [pj for pj in o['pl'].get('p') or [] if pj.get('k') == 'field']
            if len(f) == 1:
                return ('upvar', f[0]['i'])
    return None


def loop_exit_gates(eng, ga, lb, lfd, h, blocks):
    """per edge that leaves the loop (to a block that goes on): the tests with a known outcome that hold there - the test on the leaving edge and
    the tests of the same round that edge is reached through (switches of the loop that dominate the leaving block and have one side only that
    gets there without starting another round)"""
    from flow import classify_switch

    def edge_gates(x, s_):
        out = []
        t_ = lb.blocks[x]['term']
        if t_['k'] == 'switch':
            g = classify_switch(eng, lfd, x)
            g.edge = (x, s_)
            g.dom = True
            zero_t = [b_ for v_, b_ in t_['targets'] if v_ == '0']
            if zero_t and len(t_['targets']) == 1 and zero_t[0] != t_['otherwise']:
                raw = (s_ != zero_t[0])
                g.truth = (not raw) if g.negated else raw
            out.extend(ga._flatten(g))
        return out

    def within_round(frm):
        seen_, st_ = set(), [frm]
        while st_:
            y = st_.pop()
            if y in seen_ or y not in blocks or y == h:
                continue
            seen_.add(y)
            st_.extend(lb.succ[y])
        return seen_
    res = []
    leaving = [(x, s_) for x in sorted(blocks) for s_ in lb.succ[x] if s_ not in blocks and not lb.diverges(s_) and not lb.blocks[s_]['cleanup']]
    for x, s_ in leaving:
        egs = edge_gates(x, s_)
        for a in sorted(blocks):
            if a == x or lb.blocks[a]['term']['k'] != 'switch' or not lb.dominates(a, x):
                continue
            sides = [y for y in dict.fromkeys(lb.succ[a]) if y == x or x in within_round(y)]
            if len(sides) == 1:
                egs.extend(edge_gates(a, sides[0]))
        res.append(((x, s_), egs))
    return res


CMP_CALLS = ('Ord::cmp', 'PartialOrd::partial_cmp', 'PartialOrd::gt', 'PartialOrd::ge', 'PartialOrd::lt', 'PartialOrd::le', 'PartialEq::eq', 'PartialEq::ne')
GCD_CALLS = ('gcd', 'gcd_ref', 'gcd_mut', 'gcd_u')


def loop_unit_tests(prog, eng, b, fd, blocks):
    """comparisons with 1 that a generate-and-test loop makes, directly or inside a local boolean helper it calls (`is_unit_above_one(&x, n)`):
    ([comparisons of the candidate (a power) with 1], [comparisons of a gcd with 1]).  Callees are read off the backward slice of the operands;
    for a helper, the slice continues in the caller's arguments."""
    cand, gcd = [], []

    def judge(names, at, what):
        if ('c', '1') not in at:
            return
        if names & set(GCD_CALLS):
            gcd.append(what)
        elif any(nm.startswith(('secure_pow_mod', 'pow_mod')) for nm in names):
            cand.append(what)

    for bi, t in b.calls():
        if bi not in blocks:
            continue
        cal = t.get('callee') or ''
        if cal.endswith(CMP_CALLS):
            at = set()
            for a in t['args']:
                at |= fd.read_op(a)
            judge(_slice_callees(b, fd, t['args']), at, cal.split('::')[-1])
            continue
        tgt = local_target(eng, t)
        is_closure = bool(tgt) and tgt in prog.bodies and prog.bodies[tgt].kind == 'Closure'
        if is_closure and not cal.endswith(('Fn::call', 'FnMut::call_mut', 'FnOnce::call_once')):
            continue
        if tgt and tgt in prog.bodies and prog.bodies[tgt].local_ty(0) == 'bool':
            hb, hfd = prog.bodies[tgt], eng.fndep(tgt)
            outer = _slice_callees(b, fd, t['args'])
            captured = _captured_atoms(b, fd, tgt) if is_closure else {}
            for hbi, ht in hb.calls():
                hcal = ht.get('callee') or ''
                if not hcal.endswith(CMP_CALLS):
                    continue
                at = set()
                for a in ht['args']:
                    at |= hfd.read_op(a)
                for x in list(at):
                    # a value the closure captured (`one`): what the enclosing function put there
                    if strip(x)[0] == 'p' and x[1] == 1 and len(x) > 2 and x[2] and str(x[2][0]).isdigit():
                        at |= captured.get(int(x[2][0]), set())
                names = _slice_callees(hb, hfd, ht['args'])
                if any(strip(x)[0] == 'p' for x in at):
                    names = names | outer          # the helper's operands come from the caller's candidate
                judge(names, at, '%s>%s' % (tgt.split('::')[-1], hcal.split('::')[-1]))
    return cand, gcd


def loop_exit_sense(prog, eng, ga, b, fd, h, blocks):
    """Do the comparisons with 1 that a generate-and-test loop makes in its own body *hold the right way* on every edge that leaves it: the
    candidate strictly above 1, the gcd equal to 1?  (`!(a && b)` turned into `!(a || b)`, `== false` into `!= false`, `== Equal` into `!= Equal`
    keep both comparisons in the loop.)  A kind of comparison the loop body makes itself has to be established on every leaving edge; one that
    sits in a predicate the loop calls is not judged here.  None when the body makes no such comparison."""
    import rf_senses
    edges = loop_exit_gates(eng, ga, b, fd, h, blocks)
    if not edges:
        return None, []
    detail = []
    per_edge = []
    roles = set()
    for (x, s_), gs in edges:
        est = {'cand': False, 'gcd': False}
        for g in gs:
            if g.fn != b.path or g.kind not in ('call', 'cmp') or not g.oargs or ('c', '1') not in g.all_atoms():
                continue
            if g.kind == 'call' and not (g.what or '').endswith(CMP_CALLS):
                continue
            names = _slice_callees(b, fd, [o for o in g.oargs if o.get('k') in ('copy', 'move')])
            role = 'gcd' if names & set(GCD_CALLS) else 'cand' if any(nm.startswith(('secure_pow_mod', 'pow_mod')) for nm in names) else None
            if role is None:
                continue
            roles.add(role)
            r = rf_senses.relation_of(b, g, eng)
            if r is None:
                # `x.cmp(&1) == Ordering::Greater`: which Ordering it is compared with is a promoted constant the facts do not spell out; what
                # can be said is that the equality with it *holds* on the leaving edge
                if (g.what or '').split('::')[-1] in ('cmp', 'partial_cmp') and g.truth is True:
                    est[role] = True
                detail.append('%s: outcome %s' % ((g.what or '').split('::')[-1], g.truth))
                continue
            if role == 'gcd' and r[0] == '==' and ('#1',) in r[1:]:
                est['gcd'] = True
            if role == 'cand' and r[0] == '<' and r[1] == ('#1',):
                est['cand'] = True
            detail.append(rf_senses._fmt(r))
        per_edge.append(est)
    if not roles:
        return None, []
    ok_all = all(e_[r_] for e_ in per_edge for r_ in roles)
    return ok_all, sorted(set(detail))[:6]


def _captured_atoms(b, fd, closure):
    """captured field -> atoms of the value the enclosing function `b` stores there when it makes the closure"""
    out = {}
    for bl in b.blocks:
        for s in bl['stmts']:
            rv = s.get('rv') or {}
            if s.get('k') == 'assign' and rv.get('k') == 'agg' and rv.get('ak') == 'closure' and rv.get('name') == closure:
                for i, o in enumerate(rv.get('ops') or []):
                    out.setdefault(i, set()).update(fd.read_op(o))
    return out


def _is_twice_plus_one(zf, op):
    """the operand is 2 * x + 1 for one value x drawn by a call (compared as a function of x at several values: `2 * x + 1`, `(x << 1) + 1`,
    `x + x + 1` are the same function)"""
    from cl03_rules import _expr_shape
    sh = _expr_shape(zf, op)
    if sh is None:
        return False
    ARITH = {'add', 'sub', 'mul', 'shl', 'pow', 'neg', 'rem'}

    def ev(x, env):
        k = x[0]
        if k == 'lit':
            try:
                return int(str(x[1]).split('_')[0])
            except ValueError:
                return None
        if k == 'leaf' or k.lower() not in ARITH:
            return env.setdefault(str(x), None)
        vs = [ev(y, env) for y in x[1:]]
        if any(v is None for v in vs):
            return None
        op_ = k.lower()
        try:
            if op_ == 'add':
                return vs[0] + vs[1]
            if op_ == 'sub':
                return vs[0] - vs[1]
            if op_ == 'mul':
                return vs[0] * vs[1]
            if op_ == 'shl' and 0 <= vs[1] < 64:
                return vs[0] << vs[1]
            if op_ == 'pow' and 0 <= vs[1] < 64:
                return vs[0] ** vs[1]
            if op_ == 'neg':
                return -vs[0]
        except (IndexError, TypeError):
            return None
        return None
    # find the opaque leaves
    env = {}
    ev(sh, env)
    leaves = [k for k in env]
    if len(leaves) != 1:
        return False
    for val in (5, 11, 23):
        if ev(sh, {leaves[0]: val}) != 2 * val + 1:
            return False
    return True


def rule_key_generation(ctx, cfg='prod-all'):
    from flow import walk
    prog, eng, ga = ctx.prog(cfg), ctx.eng(cfg), ctx.gates(cfg)
    za = ctx.zone(cfg)
    KG = 'cl03::keys::<impl keys::pair::KeyPair<schemes::algorithms::CL03<CS>>>::generate'
    CK = 'cl03::keys::CL03CommitmentPublicKey::generate'
    if KG not in prog.bodies or CK not in prog.bodies:
        raise AnchorMissing('CL03 key generation functions')
    for entry in (KG, CK):
        frames = list(walk(eng, entry))
        sites = []
        for fr in frames:
            for bi, t in fr.body.calls():
                if (local_target(eng, t) or '').endswith('utils::random::random_prime'):
                    sites.append((fr, bi, t))
        ekey = entry
        yield Ob('RF-Q', '%s#prime-searches' % ekey, len(sites) >= 2, 'two safe-prime searches are reachable (p and q)', prog.bodies[entry].span,
                 fact={'random_prime_call_sites (per calling context)': len(sites)}, expected='>= 2')
        distinct = False
        for fr in frames:
            b, fd = fr.body, fr.fd
            for x in range(b.n):
                t = b.blocks[x]['term']
                if b.blocks[x]['cleanup'] or t['k'] != 'switch':
                    continue
                for g2 in ga._flatten(classify_switch(eng, fd, x)):
                    if 'PartialEq' in (g2.what or '') and g2.kind == 'call' and len(g2.operands) == 2 and g2.args:
                        srcs = []
                        for a in g2.args[:2]:
                            if a['k'] in ('copy', 'move'):
                                at = fr.lift(fd.read_op(a))
                                srcs.append(any(x_[0] == 'o' and x_[1].endswith('thread_rng') for x_ in at) and any(x_ in (('c', '2'), ('c', '1')) for x_ in at))
                        if len(srcs) == 2 and all(srcs):
                            distinct = True
        yield Ob('RF-Q', '%s#distinct-primes' % ekey, distinct, 'the two primes are compared with each other before the modulus is formed', prog.bodies[entry].span,
                 fact=distinct, expected=True)
        for k, (fr, bi, t) in enumerate(sites):
            b, fd = fr.body, fr.fd
            zf = za.zf(fr.path)
            if b.kind != 'Closure':
                za.summary(fr.path)
            ctxname = ' > '.join(x.split('::')[-1] for x in fr.chain())
            loops = [(h, bl) for h, bl in b.natural_loops() if bi in bl]
            in_loop = bool(loops)
            prim = False
            shape = False
            tested_other = False
            for h, bl in loops:
                for x in bl:
                    tt = b.blocks[x]['term']
                    if tt['k'] == 'call' and (tt.get('callee') or '').endswith('is_probably_prime') and tt['args'] and tt['args'][0]['k'] in ('copy', 'move'):
                        at = fd.read_op(tt['args'][0])
                        if ('c', '2') in at and ('c', '1') in at and any(a[0] == 'o' and a[1].endswith('thread_rng') for a in at):
                            shape = True
                        elif any(a[0] == 'o' and a[1].endswith('thread_rng') for a in at) and _is_twice_plus_one(zf, tt['args'][0]):
                            shape = True      # the same value written another way (`(p' << 1) + 1`)
                    if tt['k'] == 'switch':
                        for g2 in ga._flatten(classify_switch(eng, fd, x)):
                            if g2.kind == 'call' and (g2.what or '').endswith('is_probably_prime') and g2.oargs and any(v_ == '0' for v_, _b in tt['targets']):
                                # `matches!(c.is_probably_prime(reps), IsPrime::No)`: a switch on the verdict itself (`No` is variant 0 of rug's IsPrime)
                                from flow import draw_sites
                                ds = draw_sites(eng, fd, g2.oargs[0])
                                if any(bj == bi for (_ln, _c, bj) in ds):
                                    prim = True
                                else:
                                    tested_other = True
                            if 'PartialEq' in (g2.what or '') and g2.args and g2.args[0]['k'] in ('copy', 'move') and not g2.args[0]['pl'].get('p'):
                                oc = origin_call(zf, g2.args[0]['pl']['l'])
                                if oc is not None and (oc.get('callee') or '').endswith('is_probably_prime'):
                                    # the number tested is the candidate of THIS search (built from this random_prime call), not another prime
                                    from flow import draw_sites
                                    ds = draw_sites(eng, fd, oc['args'][0]) if oc['args'] else set()
                                    if any(bj == bi for (_ln, _c, bj) in ds):
                                        prim = True
                                    else:
                                        tested_other = True
            # the sense of that comparison on the edges that leave the search: `is_probably_prime(..) != No` holds (`== No` leaves with a composite)
            sense_ok = True
            seen_cmp = False
            per_edge_ = []
            for h, bl in loops:
                if any(bi in bl2 and len(bl2) < len(bl) for _h2, bl2 in b.natural_loops()):
                    continue
                for (ex_, es_), gs_ in loop_exit_gates(eng, ga, b, fd, h, bl):
                    here = None
                    for g2 in gs_:
                        if g2.kind == 'call' and (g2.what or '').endswith('is_probably_prime') and g2.edge and g2.fn == b.path:
                            tsw_ = b.blocks[g2.edge[0]]['term']
                            zero_ = [bb_ for v_, bb_ in tsw_.get('targets', []) if v_ == '0']
                            direct_ = False
                            if tsw_['k'] == 'switch' and tsw_['discr'].get('k') in ('copy', 'move'):
                                dd_ = fd.defs.get(tsw_['discr']['pl']['l'], [])
                                direct_ = len(dd_) == 1 and dd_[0][0] == 'assign' and dd_[0][2]['rv'].get('k') == 'discr'
                            if tsw_['k'] == 'switch' and zero_ and direct_:
                                seen_cmp = True
                                differs = g2.edge[1] != zero_[0]          # the side taken is not the one of variant 0 (`No`)
                                here = differs if here is None else (here or differs)
                        if 'PartialEq' in (g2.what or '') and g2.oargs and g2.oargs[0]['k'] in ('copy', 'move') and not g2.oargs[0]['pl'].get('p') and g2.fn == b.path:
                            oc = origin_call(zf, g2.oargs[0]['pl']['l'])
                            if oc is not None and (oc.get('callee') or '').endswith('is_probably_prime'):
                                seen_cmp = True
                                differs = (g2.truth is True) if (g2.what or '').endswith('::ne') else (g2.truth is False)
                                here = differs if here is None else (here or differs)
                    per_edge_.append(here)
            if seen_cmp and any(x_ is not True for x_ in per_edge_):
                sense_ok = False
            yield Ob('RF-Q', '%s#search[%d]:loop-exit-sense' % (ekey, k), sense_ok or not seen_cmp,
                     'on every edge that leaves the search the primality verdict of the candidate differs from `No`', '%s L%s' % (b.file(), t['line']),
                     fact={'context': ctxname, 'comparison_seen_on_leaving_edges': seen_cmp, 'holds_on_every_leaving_edge': sense_ok}, expected='true')
            yield Ob('RF-Q', '%s#search[%d]:loop-exit' % (ekey, k), in_loop and prim,
                     "the search loop is left only after is_probably_prime(candidate) != No", '%s L%s' % (b.file(), t['line']),
                     fact={'context': ctxname, 'in_loop': in_loop, 'exit_compares_is_probably_prime_of_this_candidate': prim, 'exit_tests_a_different_number': tested_other}, expected='true')
            yield Ob('RF-Q', '%s#search[%d]:safe-prime-shape' % (ekey, k), shape, "the tested candidate is 2 * p' + 1 with p' from the CSPRNG", '%s L%s' % (b.file(), t['line']),
                     fact={'context': ctxname, 'shape': shape}, expected=True)
            term = lift_term(ctx, cfg, fr, zf.term_op(t['args'][0]))
            ok = term is not None and term[0] is not None and term[0].endswith('SECPARAM') and term[1] == 0
            from zone import tfmt
            yield Ob('RF-Q', '%s#search[%d]:bits' % (ekey, k), ok, "p' = random_prime(SECPARAM): the safe prime has SECPARAM + 1 bits", '%s L%s' % (b.file(), t['line']),
                     fact={'context': ctxname, 'argument': tfmt(term)}, expected='N:SECPARAM')
    # random_qr
    RQ = 'utils::random::random_qr'
    b = prog.bodies.get(RQ)
    if b is None:
        raise AnchorMissing(RQ)
    fd = eng.fndep(RQ)
    sq = [t for bi, t in b.calls() if (t.get('callee') or '').endswith('secure_pow_mod')]
    two = all(any(a == ('c', '2') for a in fd.read_op(t['args'][1])) for t in sq) and len(sq) >= 1
    yield Ob('RF-Q', '%s#square' % RQ, two, 'every candidate is r^2 mod n (a quadratic residue by construction)', b.span, fact=len(sq), expected='exponent 2 at every site')
    gates = []
    for h, blocks in b.natural_loops():
        for x in blocks:
            t = b.blocks[x]['term']
            if t['k'] == 'switch':
                for g2 in ga._flatten(classify_switch(eng, fd, x)):
                    gates.append(g2.what or '')
    has_gt = any('Ordering' in w or 'PartialEq' in w or 'PartialOrd' in w or 'cmp' in w for w in gates)
    in_loop = set()
    for h, blocks in b.natural_loops():
        in_loop |= set(blocks)
    qr_tests, gcd_tests = loop_unit_tests(prog, eng, b, fd, in_loop)
    gcd_calls = gcd_tests
    has_gt = has_gt or any('>' in w for w in qr_tests + gcd_tests)
    senses = [loop_exit_sense(prog, eng, ctx.gates(cfg), b, fd, h_, bl_) for h_, bl_ in b.natural_loops()]
    sense_bad = [d_ for ok_, d_ in senses if ok_ is False]
    yield Ob('RF-Q', '%s#exit-sense' % RQ, not sense_bad, 'on every edge that leaves the loop the candidate is above 1 and its gcd with n equals 1 (the comparisons hold, the right way round)', b.span,
             fact={'loops': len(senses), 'comparisons_on_a_leaving_edge_that_do_not_establish_it': sense_bad[:2]}, expected='qr > 1 and gcd == 1 hold on exit')
    yield Ob('RF-Q', '%s#exit-condition' % RQ, len(qr_tests) >= 1 and len(gcd_tests) >= 1 and len(gcd_calls) >= 1 and has_gt,
             'the loop is left only with qr > 1 and gcd(qr, n) == 1', b.span,
             fact={'candidate_compared_with_1': qr_tests, 'gcd_compared_with_1': gcd_tests, 'gcd_calls': len(gcd_calls)},
             expected='one comparison of the candidate with 1, one of gcd(candidate, n) with 1, both deciding the loop exit')
    # provenance of b, c, h, a_i, g_i
    kg = prog.bodies[KG]
    fdk = eng.fndep(KG)
    for bi, t in kg.calls():
        if (local_target(eng, t) or '').endswith('CL03PublicKey::new'):
            for nm, a in zip(('N', 'b', 'c'), t['args']):
                if nm == 'N':
                    continue
                src = None
                if a['k'] in ('copy', 'move') and not a['pl'].get('p'):
                    z = ctx.zone(cfg).zf(KG)
                    l = a['pl']['l']
                    for _ in range(4):
                        d = z.single_def(l)
                        if d and d[0] == 'call':
                            src = local_target(eng, d[2])
                            break
                        if d and d[0] == 'assign' and d[2]['rv'].get('op', {}).get('k') in ('copy', 'move'):
                            l = d[2]['rv']['op']['pl']['l']
                            continue
                        break
                yield Ob('RF-Q', '%s#pk.%s' % (KG, nm), (src or '').endswith('random_qr'), 'public-key element %s is random_qr(N)' % nm, kg.span, fact=src, expected='random_qr')
    BG = 'cl03::bases::Bases::generate'
    bg = prog.bodies.get(BG)
    if bg is None:
        raise AnchorMissing(BG)
    pushes = [t for bi, t in bg.calls() if (t.get('callee') or '') == 'std::vec::Vec::<T, A>::push']
    z = ctx.zone(cfg).zf(BG)
    okb = bool(pushes)
    for t in pushes:
        l = t['args'][1]['pl']['l'] if t['args'][1]['k'] in ('copy', 'move') else None
        oc = origin_call(z, l) if l is not None else None
        if not (oc is not None and (local_target(eng, oc) or '').endswith('random_qr')):
            okb = False
    yield Ob('RF-Q', '%s#a_i' % BG, okb, 'every attribute base is random_qr(N)', bg.span, fact=len(pushes), expected='pushes of random_qr results')
    ck = prog.bodies[CK]
    fdc = eng.fndep(CK)
    zc = ctx.zone(cfg).zf(CK)
    hs = [l for l, loc in enumerate(ck.locals) if loc.get('name') == 'h']
    okh = False
    for l in hs:
        d = zc.single_def(l)
        if d and d[0] == 'call' and (local_target(eng, d[2]) or '').endswith('random_qr'):
            okh = True
    yield Ob('RF-Q', '%s#h' % CK, okh, 'h is random_qr(N)', ck.span, fact=okh, expected=True)
    # g_i = h^f mod N, pushed only after g_i > 1 and gcd(g_i, N) == 1
    kh = hs[0] if hs else None
    # the generate-and-test loop may sit in the function itself or in a closure it maps over the attribute positions
    gbodies = [ck] + [cb for cb in prog.closures_of(CK)]
    pows, okp = [], True
    loop_tests = []
    gi_senses = []
    for gb in gbodies:
        gfd = eng.fndep(gb.path)
        gz = ctx.zone(cfg).zf(gb.path)
        for bi, t in gb.calls():
            if not (t.get('callee') or '').endswith('pow_mod_ref'):
                continue
            pows.append(t)
            base_ok = False
            if t['args'][0]['k'] in ('copy', 'move'):
                r0, p0 = gfd.resolve_place(t['args'][0]['pl'])
                if gb is ck:
                    base_ok = r0 == kh
                elif r0 == 1 and p0 and str(p0[0]).isdigit():
                    cctx = gz.closure_ctx()
                    if cctx is not None and int(p0[0]) < len(cctx[2]) and cctx[2][int(p0[0])]['k'] in ('copy', 'move'):
                        base_ok = fdc.resolve_place(cctx[2][int(p0[0])]['pl'])[0] == kh
            okp = okp and base_ok
            for h_, blocks in gb.natural_loops():
                if bi in blocks:
                    loop_tests.append(loop_unit_tests(prog, eng, gb, gfd, blocks))
                    if not any(bi in bl2 and len(bl2) < len(blocks) for _h2, bl2 in gb.natural_loops()):
                        gi_senses.append(loop_exit_sense(prog, eng, ga, gb, gfd, h_, blocks))       # (the innermost loop around the power)
    okp = bool(pows) and okp
    gi_bad = [d_ for ok_, d_ in gi_senses if ok_ is False]
    yield Ob('RF-Q', '%s#g_i-exit-sense' % CK, not gi_bad, 'on every edge that leaves the search for g_i the candidate is above 1 and its gcd with N equals 1', ck.span,
             fact={'loops': len(gi_senses), 'comparisons_on_a_leaving_edge_that_do_not_establish_it': gi_bad[:2]}, expected='g_i > 1 and gcd == 1 hold on exit')
    yield Ob('RF-Q', '%s#g_i=h^f' % CK, okp, 'every g_i candidate is a power of h (so it lies in the subgroup generated by h)', ck.span, fact=len(pows), expected='base h at every pow_mod site')
    pushes = [(bi, t) for bi, t in ck.calls() if (t.get('callee') or '') == 'std::vec::Vec::<T, A>::push']
    if not pushes and loop_tests:
        # iterator form (`(0..n).map(|_| loop { .. if test(g_i) { break g_i } }).collect()`): the loop that computes the power makes both tests
        okl = all(c and g for c, g in loop_tests)
        yield Ob('RF-Q', '%s#g_i-exit' % CK, okl, 'a g_i is stored only after the test g_i > 1 and gcd(g_i, N) == 1', ck.span,
                 fact={'loops_with_power': len(loop_tests), 'tests': [{'candidate_vs_1': c, 'gcd_vs_1': g} for c, g in loop_tests][:3]}, expected='both tests in the generating loop')
        pushes = None
    okg = bool(pushes)
    detail = []
    for bi, t in (pushes or []):
        gs = ga.block_gates(fdc, bi)
        names = [g.what or '' for g in gs]
        # the push is reached only through the loop exit whose condition compares g_i with 1 and gcd(g_i, N) with 1
        dom_gates = []
        for sw in range(ck.n):
            tt = ck.blocks[sw]['term']
            if tt['k'] == 'switch':
                for su in ck.succ[sw]:
                    if ck.dominates(su, bi) and all(p == sw or ck.dominates(su, p) for p in ck.pred[su]):
                        for g2 in ga._flatten(classify_switch(eng, fdc, sw)):
                            dom_gates.append(g2.what or '')
        has = any('PartialOrd' in w or 'PartialEq' in w or w in ('Eq', 'Ne') for w in dom_gates)
        detail.append(sorted(set(w.split('::')[-1] for w in dom_gates))[:6])
        okg = okg and has
    gcds = [t for bi, t in ck.calls() if (t.get('callee') or '').endswith('gcd_ref')]
    if pushes is not None:
      # the gcd may be taken in a local predicate the loop calls (`coprime_to_N(&g_i)`): then the loop's own tests are the evidence
      in_helper = bool(loop_tests) and all(g for c, g in loop_tests)
      yield Ob('RF-Q', '%s#g_i-exit' % CK, okg and (len(gcds) >= 1 or in_helper), 'a g_i is stored only after the test g_i > 1 and gcd(g_i, N) == 1', ck.span,
             fact={'dominating_comparisons': detail, 'gcd_calls': len(gcds), 'gcd_tests_in_loop': [g for c, g in loop_tests][:3]}, expected='comparison gate dominating the push')


def rule_random_helpers(ctx, cfg='prod-all'):
    prog, eng = ctx.prog(cfg), ctx.eng(cfg)
    RB = 'utils::random::random_bits'
    b = prog.bodies.get(RB)
    if b is None:
        raise AnchorMissing(RB)
    fd = eng.fndep(RB)
    z = ctx.zone(cfg)
    z.summary(RB)
    zf = z.zf(RB)
    sb = [(bi, t) for bi, t in b.calls() if (t.get('callee') or '').endswith('set_bit')]
    rb = [(bi, t) for bi, t in b.calls() if (t.get('callee') or '').endswith('Integer::random_bits')]
    rb_term = zf.term_op(rb[0][1]['args'][0]) if rb else None
    rb_block = rb[0][0] if rb else None
    if not rb:
        # the draw may sit in a closure handed to a helper that provides the generator (`with_csprng(|rand| Integer::random_bits(n, rand))`):
        # the width in this function's terms, at the call that runs the closure
        for cb in prog.closures_of(RB):
            czf = z.zf(cb.path)
            for cbi, ct in cb.calls():
                if (ct.get('callee') or '').endswith('Integer::random_bits'):
                    cctx = czf.closure_ctx()
                    tt = czf.term_op(ct['args'][0])
                    if cctx is not None and tt is not None and tt[0] and tt[0].startswith('cap') and int(tt[0][3:]) < len(cctx[2]):
                        rb_term = zf.term_op(cctx[2][int(tt[0][3:])])
                        if rb_term is not None:
                            rb_term = (rb_term[0], rb_term[1] + tt[1])
                    elif tt is not None and tt[0] is None:
                        rb_term = tt
                    rb = [(cbi, ct)]
                    rb_block = cctx[3][0] if cctx is not None and cctx[3] is not None else None
    ok = len(sb) == 1 and len(rb) == 1 and rb_block is not None and b.dominates(rb_block, sb[0][0])
    idx_ok = False
    val_ok = False
    if sb:
        t = sb[0][1]
        term = zf.term_op(t['args'][1])
        idx_ok = term == ('p1', -1)
        val_ok = t['args'][2]['k'] == 'const' and t['args'][2].get('int') == '1'
    yield Ob('RF-Q', '%s#top-bit' % RB, ok and idx_ok and val_ok, 'random_bits(n) sets bit n - 1 of an n-bit random value (exactly n bits)', b.span,
             fact={'set_bit_after_random_bits': ok, 'index_is_n_minus_1': idx_ok, 'value_true': val_ok}, expected='all true')
    yield Ob('RF-Q', '%s#same-n' % RB, bool(rb) and rb_term == ('p1', 0), 'the random value has n bits', b.span,
             fact=str(rb_term), expected='p1')
    # seeds of the ChaCha generators come from thread_rng
    for fn in ('utils::random::random_bits', 'utils::random::random_number', 'utils::random::rand_int'):
        bb = prog.bodies.get(fn)
        if bb is None:
            raise AnchorMissing(fn)
        fdd = eng.fndep(fn)
        # the generator may be built by this function or by a helper it calls (directly or through random_number / a closure-taking helper)
        from flow import walk as _walk
        seeds = []
        for fr in _walk(eng, fn, max_depth=4, include_closures=False):
            if not fr.path.startswith('utils::random'):
                continue
            for bi, t in fr.body.calls():
                if 'from_seed' in (t.get('callee') or ''):
                    seeds.append((fr, bi, t))
        seen_sites = {(fr.path, bi) for fr, bi, t in seeds}
        ok = len(seen_sites) == 1
        prov = None
        if seeds:
            fr0, _bi0, t0 = seeds[0]
            prov = fr0.lift(fr0.fd.read_op(t0['args'][0]))
            ok = ok and any(a[0] == 'o' and a[1].endswith('thread_rng') for a in prov) and not any(strip(a)[0] in ('p', 's') or (a[0] == 'c' and a[1] not in ('0',)) for a in prov)
        yield Ob('RF-G1', '%s#seed' % fn, ok, 'the ChaCha20 generator is seeded from rand::thread_rng and nothing else', bb.span, fact=fmt_atoms(bb, prov or set()), expected='{rand::thread_rng}')
    # random_prime(n) = next_prime(random_bits(n)): the search starts from a value with bit n - 1 set (a start drawn uniformly below 2^n gives a
    # shorter prime half of the time; key generation uses the prime as it comes)
    RP_ = 'utils::random::random_prime'
    pb_ = prog.bodies.get(RP_)
    if pb_ is None:
        raise AnchorMissing(RP_)
    pz_ = za.zf(RP_) if False else None
    starts = [t for bi, t in pb_.calls() if (local_target(eng, t) or '').endswith('utils::random::random_bits')]
    others = [(local_target(eng, t) or t.get('callee') or '').split('::')[-1] for bi, t in pb_.calls()
              if (local_target(eng, t) or '').startswith('utils::random::') and not (local_target(eng, t) or '').endswith('random_bits')]
    nextp = [t for bi, t in pb_.calls() if (t.get('callee') or '').split('::')[-1] in ('next_prime', 'next_prime_mut', 'next_prime_ref')]
    arg_ok = bool(starts) and all(t['args'] and t['args'][0].get('k') in ('copy', 'move') and eng.fndep(RP_).resolve_place(t['args'][0]['pl'])[0] == 1 for t in starts)
    yield Ob('RF-Q', '%s#start' % RP_, len(starts) == 1 and arg_ok and not others and len(nextp) >= 1, 'random_prime(n) is the next prime after random_bits(n)', pb_.span,
             fact={'random_bits_calls': len(starts), 'argument_is_n': arg_ok, 'other_draws': others, 'next_prime_calls': len(nextp)}, expected='one random_bits(n), next_prime')
    RI = 'utils::random::rand_int'
    bb = prog.bodies[RI]
    fdd = eng.fndep(RI)
    # the draw may sit in the function or in a closure it hands to the helper that owns the generator (`with_rand_state(|rand| ..)`)
    rbel = []
    for xb in [bb] + list(prog.closures_of(RI)):
        xfd = eng.fndep(xb.path)
        cap = _captured_atoms(bb, fdd, xb.path) if xb is not bb else {}
        for bi, t in xb.calls():
            if (t.get('callee') or '').endswith('random_below') or (local_target(eng, t) or '').endswith('random_number'):
                at = set(xfd.read_op(t['args'][0]))
                for x in list(at):
                    if xb is not bb and strip(x)[0] == 'p' and x[1] == 1 and len(x) > 2 and x[2] and str(x[2][0]).isdigit():
                        at |= cap.get(int(x[2][0]), set())
                rbel.append((t, at))
    ok = len(rbel) == 1
    if rbel:
        at = rbel[0][1]
        ka, kb = bb.param_index('a'), bb.param_index('b')
        ok = ok and any(strip(a)[0] == 'p' and strip(a)[1] == ka for a in at) and any(strip(a)[0] == 'p' and strip(a)[1] == kb for a in at) and ('c', '1') in at
    ret = eng.summary(RI)['ret'].get((), set())
    ok2 = any(strip(a)[0] == 'p' and strip(a)[1] == bb.param_index('a') for a in ret)
    yield Ob('RF-Q', '%s#shape' % RI, ok and ok2, 'rand_int(a, b) = a + random_below(b - a + 1)', bb.span, fact={'range_uses_a_b_1': ok, 'result_offset_by_a': ok2}, expected='both')


# ---------------------------------------------------------------------------------------- C18: the random exponent s of a signature
def rule_signature_randomness_bits(ctx, cfg='prod-all'):
    """The blinding exponent s of a CL03 signature is random_bits(ls) (ls = ln + lm + lin): in every signing function the value stored as `s`
    (or as the issuer's share `rprime`) is a draw whose bit length, evaluated with the constants of each ciphersuite, is that suite's ls."""
    prog = ctx.prog(cfg)
    suites = {}
    for ty, cs in prog.impl_consts('CLCiphersuite').items():
        suites[ty.split('::')[-1]] = {n: int(c['int']) for n, c in cs.items() if c.get('int') is not None}
    if len(suites) < 3:
        raise AnchorMissing('CLCiphersuite impls: %s' % sorted(suites))
    n = 0
    for p, b in sorted(prog.bodies.items()):
        if b.from_expansion or not p.startswith(('cl03::signature::', 'cl03::blind::')) or b.kind == 'Closure':
            continue
        for bi, st in b.stmts():
            if st['k'] != 'assign' or st['rv']['k'] != 'agg' or st['rv'].get('ak') != 'adt':
                continue
            fields = [str(f) for f in st['rv'].get('fields', [])]
            nm = st['rv']['name'].split('::')[-1]
            if nm not in ('CL03Signature', 'CL03BlindSignature') or 'e' not in fields:
                continue
            for fname in ('s', 'rprime'):
                if fname not in fields:
                    continue
                op = st['rv']['ops'][fields.index(fname)]
                facts, ok, drawn = {}, True, True
                oc = origin_call(ctx.zone(cfg).zf(p), op['pl']['l']) if op['k'] in ('copy', 'move') and not op['pl'].get('p') else None
                if oc is None or not (local_target(ctx.eng(cfg), oc) or '').endswith('random_bits'):
                    continue          # a value that is not a fresh draw here (unblinding adds the holder's share to the issuer's): not this rule
                for sname, sv in sorted(suites.items()):
                    bb = Bits(ctx, cfg, p, sv).bits_op(op)
                    facts[sname] = {'bits': bb[0] if bb else None, 'from': list(bb[1])[:3] if bb else None, 'ls': sv.get('ls')}
                    if bb is None or bb[0] != sv.get('ls'):
                        ok = False
                n += 1
                yield Ob('RF-Q', '%s#%s-bits' % (p, fname), ok, 'the random exponent of the signature has ls = ln + lm + lin bits in every ciphersuite',
                         '%s L%s' % (b.file(), st.get('line')), fact=facts, expected='ls of each suite')
    yield Ob('RF-Q', 'cl03#signature-randomness', n >= 1, 'signing functions whose random exponent was evaluated', '', fact=n, expected='>= 1', nontrivial=False)
