"""RF-V: the acceptance region of an entry point, in the difference-bound abstraction, is the tabled one.

For an entry point E, take every fact that holds at each success return, close it (Floyd-Warshall) and project it onto the *interface*
symbols: integer parameters, lengths and element bounds of list parameters (also after Option defaulting: `x.unwrap_or(&[])`).  The result
is a canonical set of constraints `a - b <= c` every accepted input satisfies.  A constraint that is not implied by the tabled ones means the
function now refuses inputs it accepted before (a new or stricter guard on an honest path) - completeness for exactly those shapes is gone,
and no fixture notices unless it has that shape.  Because the comparison is on the closed, projected form, it does not depend on how the
guards are written (`i > L - 1` / `i >= L`, one merged condition / several, in the function / in a helper, loop / any / find)."""
import json, os
from framework import Ob, AnchorMissing
from rf_gates import resolve_fn
from zone import dbm_build, dbm_closure, tfmt, UMAX, IMAX
import bbs_tables as T

TABLE_FILE = os.path.join(os.path.dirname(os.path.abspath(__file__)), 'accept_regions.json')

ENTRIES = [T.SIG + 'sign', T.SIG + 'verify', T.POK + 'proof_gen', T.POK + 'proof_verify', T.SIG + 'update_signature',
           T.COM + 'commit', T.COM + 'deserialize_and_validate_commit', T.BSIG + 'blind_sign', T.BSIG + 'verify_blind_sign',
           T.POK + 'blind_proof_gen', T.POK + 'blind_proof_verify',
           'bbsplus::proof::core_proof_gen', 'bbsplus::proof::core_proof_verify', 'bbsplus::proof::proof_verify_init', 'bbsplus::proof::proof_init',
           'bbsplus::signature::core_sign', 'bbsplus::signature::core_verify', 'bbsplus::commitment::core_commit', 'bbsplus::commitment::core_commit_verify',
           'bbsplus::blind::prepare_parameters', 'bbsplus::keys::key_gen', 'utils::util::bbsplus_utils::calculate_domain',
           'utils::util::bbsplus_utils::calculate_blind_challenge', 'utils::util::bbsplus_utils::hash_to_scalar']


def _interface_name(zf, sym):
    """stable name of a symbol that speaks about the inputs of the function, or None for internal values"""
    from rf_consts import _trace_identity
    body, fd = zf.body, zf.fd
    if sym is None:
        return '0'
    if sym[0] == 'p' and sym[1:].isdigit():
        return 'param:' + (body.local_name(int(sym[1:])) or sym)
    for kind in ('len:', 'elem:'):
        if sym.startswith(kind):
            nm = sym[len(kind):]
            head = nm.split('.')[0]
            if body.param_index(head) is not None:
                return kind + nm
            if head.startswith('_') and head[1:].isdigit() and '.' not in nm:
                par, _c, _w = _trace_identity(fd, body, {'k': 'copy', 'pl': {'l': int(head[1:])}})
                if par is not None:
                    return kind + (body.local_name(par) or ('p%d' % par))
            return None
    if sym.startswith('v') and sym[1:].isdigit():
        # an integer obtained from a parameter by Option defaulting (`L.unwrap_or(0)`)
        par, _c, _w = _trace_identity(fd, body, {'k': 'copy', 'pl': {'l': int(sym[1:])}})
        if par is not None and body.local_ty(par).replace('std::option::Option<', '').rstrip('>') in ('usize', 'u64', 'u32'):
            return 'param:' + (body.local_name(par) or ('p%d' % par))
    return None


def acceptance_region(ctx, cfg, path):
    """{(a, b): c} meaning a - b <= c for interface symbols a, b ('0' is the constant zero), holding at every success return"""
    prog, za = ctx.prog(cfg), ctx.zone(cfg)
    body = prog.bodies[path]
    za.summary(path)
    zf = za.zf(path)
    rty = body.local_ty(0)
    accept = []
    for bi, blk in enumerate(body.blocks):
        if blk['cleanup']:
            continue
        for s in blk['stmts']:
            if s['k'] == 'assign' and s['dst']['l'] == 0 and not s['dst'].get('p'):
                rv = s['rv']
                if rv['k'] == 'agg' and rv.get('variant') in ('Ok', 'Some'):
                    accept.append(bi)
                elif rty == 'bool' and rv['k'] == 'use' and rv['op']['k'] == 'const' and rv['op'].get('int') == '1':
                    accept.append(bi)
                elif rty.startswith('std::result::Result') and rv['k'] == 'use' and rv['op']['k'] in ('copy', 'move') and not rv['op']['pl'].get('p'):
                    accept.append(bi)      # `let r = callee(..); r`: success and failure share this return
        t = blk['term']
        if t['k'] == 'call' and t['dst']['l'] == 0 and not t['dst'].get('p') and 'from_residual' not in (t.get('callee') or '') and 'panic' not in (t.get('callee') or ''):
            accept.append(bi)
    if not rty.startswith(('std::result::Result', 'std::option::Option', 'bool')):
        accept = list(body.exits)
    if not accept:
        return None
    region = None
    for a in sorted(set(accept)):
        facts = zf.facts_at(a)
        syms, cons, idx = dbm_build(facts, zf.sym_ub)
        d = dbm_closure(syms, cons, zf.sym_ub)
        if any(d[k][k] < 0 for k in range(len(syms))):
            continue          # unreachable
        names = {}
        for s, i in syms.items():
            nm = _interface_name(zf, s)
            if nm is not None:
                names.setdefault(nm, []).append(i)
        cur = {}
        for na, ia in names.items():
            for nb, ib in names.items():
                if na == nb:
                    continue
                c = min(d[i][j] for i in ia for j in ib)
                if c == float('inf'):
                    continue
                # drop what the types alone give: x >= 0, x <= its type / allocation bound
                if na == '0' and c >= 0:
                    continue
                if nb == '0' and c >= IMAX // 256:
                    continue
                if na != '0' and nb != '0' and c >= IMAX // 256:
                    continue
                cur[(na, nb)] = int(c)
        if region is None:
            region = cur
        else:
            region = {k: max(v, cur[k]) for k, v in region.items() if k in cur}
    return region or {}


def _implied(table, a, b, c):
    """is a - b <= c implied by the tabled constraints? (closure over the tabled ones)"""
    syms = {}
    def idx(s):
        if s not in syms:
            syms[s] = len(syms)
        return syms[s]
    idx('0')
    cons = [(idx(x), idx(y), v) for (x, y), v in table.items()]
    i, j = idx(a), idx(b)
    n = len(syms)
    INF = float('inf')
    d = [[INF] * n for _ in range(n)]
    for k in range(n):
        d[k][k] = 0
        d[0][k] = min(d[0][k], 0)
    for (x, y, v) in cons:
        d[x][y] = min(d[x][y], v)
    for k in range(n):
        for x in range(n):
            if d[x][k] == INF:
                continue
            for y in range(n):
                if d[x][k] + d[k][y] < d[x][y]:
                    d[x][y] = d[x][k] + d[k][y]
    return d[i][j] <= c


def load_table():
    with open(TABLE_FILE) as f:
        raw = json.load(f)
    return {fn: {(a, b): c for a, b, c in lst} for fn, lst in raw.items() if not fn.startswith('__')}


def load_params():
    """{function: parameter names at the time the table was reviewed}"""
    with open(TABLE_FILE) as f:
        return json.load(f).get('__params__', {})


def _head(sym):
    if sym == '0':
        return None
    return sym.split(':', 1)[1].split('.')[0]


def rule_acceptance_regions(ctx, cfg='prod-all', only=None):
    prog = ctx.prog(cfg)
    table = load_table()
    params = load_params()
    n = 0
    for e in ENTRIES:
        if only and not any(e.endswith(o) for o in only):
            continue
        body = resolve_fn(prog, e)
        reg = acceptance_region(ctx, cfg, body.path)
        if reg is None:
            raise AnchorMissing('no success return in %s' % body.path)
        if body.path not in table:
            raise AnchorMissing('acceptance region of %s is not tabled' % body.path)
        tab = table[body.path]
        # a private function may change its parameter list (the public entry points that use it are compared on their own, fixed, interface):
        # only constraints over the parameters it had when the table was reviewed are compared
        vocab = None if body.j.get('pub') else set(params.get(body.path, []))
        new = [(a, b, c) for (a, b), c in sorted(reg.items()) if not _implied(tab, a, b, c)
               and (vocab is None or all(_head(x) is None or _head(x) in vocab for x in (a, b)))]
        n += 1
        yield Ob('RF-V', '%s#acceptance-region' % body.path, not new,
                 'every constraint on the inputs that holds at the success returns is implied by the tabled acceptance conditions (no new refusal of inputs accepted before)',
                 body.span, fact={'constraints_now': len(reg), 'tabled': len(tab), 'not_implied': ['%s - %s <= %d' % x for x in new][:8]}, expected='implied by the table')
    yield Ob('RF-V', 'crate#acceptance-regions', n >= (3 if only else 20), 'entry points and core functions examined', '', fact=n, expected='>= 20', nontrivial=False)
